//! C44 — files with a differing schema are read faithfully into the table schema.
//!
//! Domain: a table schema made of one struct column `st` plus 1–5 scalar columns out of
//! `n, n2` (int), `x` (float), `t` (string), `d` (date/time), `m` (decimal), in a generated order and
//! with generated table types (`n`: Int64|Int32, `t`: Utf8|Utf8View|LargeUtf8|Dictionary(Int32,Utf8),
//! `d`: Timestamp(us|ns|ms)|Date32|Date64, `m`: Decimal128(10,2)|(12,3)|(20,4)|(38,6); struct fields out
//! of `p` int, `q` string, `r` float, `u` int). 1–3 Parquet files, each with its own physical schema
//! derived from the table schema: columns permuted, dropped (-> NULL), extra columns added (ignored), a
//! physical type lower in the value-preserving lattice (i16->i32->i64, f32->f64, utf8 / largeutf8 /
//! utf8view / dictionary interchangeably, date32->timestamp|date64, decimal (5,1)/(6,2)/(9,2)/(10,2) ->
//! wider), struct fields permuted / dropped / added / retyped (always >= 1 common field — the engine
//! documents "no field name overlap" as an error), fields declared non-nullable in the file when the
//! file's data has no NULL (table fields are always nullable: the only documented-safe direction).
//! All values are representable in the narrowest type of their lattice, so a row's logical value is
//! independent of the file's physical type. Queries: projections (columns, struct fields, the whole
//! struct, an arithmetic expression), predicates (comparisons with in- and out-of-range literals,
//! IN, BETWEEN, IS [NOT] NULL, AND/OR/NOT) over columns and struct fields — including ones missing
//! from some or all files — and `count/min/max` aggregates; options `pushdown_filters`,
//! `reorder_filters`, `pruning`, `enable_page_index`, `bloom_filter_on_read`, `schema_force_view_types`,
//! `skip_metadata`, `collect_statistics`, `target_partitions`, `batch_size`; small row groups, statistics
//! levels and bloom filters on the writer side.
//!
//! Oracle: the same SQL over a `MemTable` in the table schema whose rows are the harness's own
//! adaptation of every file's rows: each table column (struct field) is built from the logical values
//! of the same-named file column (struct field) directly in the table type, NULL where the file has
//! no such column (field), NULL struct where the file's struct is NULL. Results are compared as
//! multisets of plain rows plus equality of the (representation-normalised) result types.
//!
//! Non-trivial: >= 2 files with different physical schemas, >= 1 missing column/field and >= 1 retyped
//! column/field somewhere, and the predicate references a column/field that is missing or retyped
//! in some file.
//!
//! Deviations from DESIGN.md: lives in vf-files; the reference rows are built from the logical values
//! directly in the table type (stronger than casting the file arrays with `arrow::compute::cast`, and
//! independent of it; the lattice is value-preserving so both agree by construction); narrowing or
//! lossy type changes are not generated (not documented as supported).
//!
//! Sensitivity probes (env-gated multi-mutation patch applied with tools/mutrun, one mutation per run via
//! VF_MUT; all caught by `c44 quick`, seed 0):
//! * `adapter_by_position` — schema_rewriter.rs `resolve_physical_column` trusts the incoming column index
//!   instead of resolving by name -> VIOLATION (first cases).
//! * `missing_as_zero` — schema_rewriter.rs `rewrite_column`: a column missing from the file is filled with
//!   the type's zero instead of NULL -> VIOLATION after 56 cases.
//! * `struct_by_index` — nested_struct.rs `cast_struct_column` maps a present struct field by position
//!   instead of by name -> VIOLATION after 11 cases.
//!
//! Genuine finding (open, known_findings.json `dictionary-table-column+collect-statistics+filter`, case
//! regressions/C44/c44/dictionary-column-statistics-interval.json, proposed repair
//! fixes/C44-dictionary-column-statistics-interval.diff — verified with mutrun: the case passes and a
//! full quick run is green): a table column declared Dictionary(Int32, Utf8), `collect_statistics=true`,
//! >= 2 files of which one has no min/max for the column (missing or all NULL) and a WHERE clause going
//! through interval analysis -> `Internal error: Endpoints of an Interval should have the same type`.
//! Second open finding, shared with C24 (`pushdown+mask+predicate-cache+small-batch`, case
//! regressions/C44/c44/sparse-page-mask.json, found by the thorough tier): `pushdown_filters=true`, a filter
//! of >= 2 conjuncts and batch_size 7 over 8-row pages -> `Parquet error: Invalid offset in sparse column
//! chunk data`; excluded via `known_signature` unless `force_filter_selections` is on.
use crate::util::*;
use datafusion::arrow::array::*;
use datafusion::arrow::datatypes::{DataType, Field, Fields, Schema, SchemaRef, TimeUnit};
use datafusion::arrow::record_batch::RecordBatch;
use datafusion::datasource::MemTable;
use datafusion::datasource::file_format::parquet::ParquetFormat;
use datafusion::datasource::listing::ListingOptions;
use datafusion::parquet::arrow::ArrowWriter;
use datafusion::parquet::file::properties::{EnabledStatistics, WriterProperties};
use datafusion::prelude::*;
use proptest::prelude::*;
use serde::{Deserialize, Serialize};
use std::sync::Arc;
use vf_kit::engine::*;

pub struct C44;

// ---------------------------------------------------------------------------------------------
// types

#[derive(Clone, Copy, Debug, PartialEq, Eq)]
enum STy {
    I16,
    I32,
    I64,
    F32,
    F64,
    Utf8,
    LargeUtf8,
    Utf8View,
    DictUtf8,
    Date32,
    Date64,
    TsMs,
    TsUs,
    TsNs,
    Dec(u8, i8),
}

impl STy {
    fn arrow(self) -> DataType {
        match self {
            STy::I16 => DataType::Int16,
            STy::I32 => DataType::Int32,
            STy::I64 => DataType::Int64,
            STy::F32 => DataType::Float32,
            STy::F64 => DataType::Float64,
            STy::Utf8 => DataType::Utf8,
            STy::LargeUtf8 => DataType::LargeUtf8,
            STy::Utf8View => DataType::Utf8View,
            STy::DictUtf8 => DataType::Dictionary(Box::new(DataType::Int32), Box::new(DataType::Utf8)),
            STy::Date32 => DataType::Date32,
            STy::Date64 => DataType::Date64,
            STy::TsMs => DataType::Timestamp(TimeUnit::Millisecond, None),
            STy::TsUs => DataType::Timestamp(TimeUnit::Microsecond, None),
            STy::TsNs => DataType::Timestamp(TimeUnit::Nanosecond, None),
            STy::Dec(p, s) => DataType::Decimal128(p, s),
        }
    }
}

/// value kinds: 0 int, 1 float, 2 string, 3 date, 4 decimal
#[derive(Clone, Copy, Debug, PartialEq, Eq)]
enum VK {
    Int,
    Float,
    Str,
    Date,
    Dec,
}

/// scalar table columns by kind index: 0 n, 1 n2, 2 x, 3 t, 4 d, 5 m ; 6 is the struct `st`
const SCALARS: [(&str, VK); 6] = [("n", VK::Int), ("n2", VK::Int), ("x", VK::Float), ("t", VK::Str), ("d", VK::Date), ("m", VK::Dec)];
const ST: u8 = 6;
/// struct field pool: 0 p, 1 q, 2 r, 3 u
const SFIELDS: [(&str, VK); 4] = [("p", VK::Int), ("q", VK::Str), ("r", VK::Float), ("u", VK::Int)];

fn table_types(vk: VK) -> Vec<STy> {
    match vk {
        VK::Int => vec![STy::I64, STy::I32],
        VK::Float => vec![STy::F64],
        VK::Str => vec![STy::Utf8, STy::Utf8View, STy::LargeUtf8, STy::DictUtf8],
        VK::Date => vec![STy::TsUs, STy::TsNs, STy::TsMs, STy::Date32, STy::Date64],
        VK::Dec => vec![STy::Dec(10, 2), STy::Dec(12, 3), STy::Dec(20, 4), STy::Dec(38, 6)],
    }
}

/// physical types a file may use for a column whose table type is `t` (first = identical)
fn file_types(t: STy) -> Vec<STy> {
    match t {
        STy::I64 => vec![STy::I64, STy::I32, STy::I16],
        STy::I32 => vec![STy::I32, STy::I16],
        STy::F64 => vec![STy::F64, STy::F32],
        STy::Utf8 | STy::Utf8View | STy::LargeUtf8 | STy::DictUtf8 => {
            let mut v = vec![t];
            for o in [STy::Utf8, STy::LargeUtf8, STy::Utf8View, STy::DictUtf8] {
                if o != t {
                    v.push(o);
                }
            }
            v
        }
        STy::TsMs | STy::TsUs | STy::TsNs | STy::Date64 => vec![t, STy::Date32],
        STy::Date32 => vec![STy::Date32],
        STy::Dec(_, _) => vec![t, STy::Dec(5, 1), STy::Dec(6, 2), STy::Dec(9, 2), STy::Dec(10, 2)],
        other => vec![other],
    }
}

fn pick<T: Copy>(v: &[T], choice: u8) -> T {
    v[((choice as usize) * v.len()) >> 8]
}

const F32S: [f32; 14] = [-1.0e10, -2.5, -1.0, -0.25, 0.0, 0.1, 0.25, 0.5, 1.0, 1.5, 2.0, 3.75, 16777216.0, 3.0e10];

// ---------------------------------------------------------------------------------------------
// case

#[derive(Clone, Debug, Serialize, Deserialize)]
pub struct StV {
    pub p: Option<i16>,
    pub q: Option<String>,
    pub r: Option<u8>,
    pub u: Option<i16>,
}

#[derive(Clone, Debug, Serialize, Deserialize)]
pub struct RowV {
    pub n: Option<i16>,
    pub n2: Option<i16>,
    /// index into F32S
    pub x: Option<u8>,
    pub t: Option<String>,
    /// days since epoch
    pub d: Option<i32>,
    /// decimal, unscaled at scale 1
    pub m: Option<i16>,
    pub st: Option<StV>,
}

#[derive(Clone, Debug, Serialize, Deserialize)]
pub struct TCol {
    /// 0..=5 scalar kinds, 6 struct
    pub kind: u8,
    pub ty: u8,
}

#[derive(Clone, Debug, Serialize, Deserialize)]
pub struct TField {
    pub f: u8,
    pub ty: u8,
}

#[derive(Clone, Debug, Serialize, Deserialize)]
pub struct FField {
    /// 0..=3 pool field, >= 4 an extra field the table does not know
    pub f: u8,
    pub ty: u8,
    pub nullable: bool,
}

#[derive(Clone, Debug, Serialize, Deserialize)]
pub struct FCol {
    /// 0..=5 scalar kinds, 6 struct, >= 7 an extra column the table does not know
    pub kind: u8,
    pub ty: u8,
    pub nullable: bool,
    pub fields: Vec<FField>,
}

#[derive(Clone, Debug, Serialize, Deserialize)]
pub struct FileSpec {
    pub cols: Vec<FCol>,
    pub rows: Vec<RowV>,
}

#[derive(Clone, Debug, Serialize, Deserialize)]
pub struct Opts {
    pub pushdown: bool,
    pub reorder: bool,
    pub pruning: bool,
    pub page_index: bool,
    pub bloom_read: bool,
    pub view_types: bool,
    pub skip_metadata: bool,
    pub collect_stats: bool,
    pub partitions: usize,
    pub batch_size: usize,
    pub rg: usize,
    pub stats: u8,
    pub bloom: bool,
    pub dict: bool,
    #[serde(default)]
    pub force_sel: bool,
}

#[derive(Clone, Debug, Serialize, Deserialize)]
pub struct Lit {
    pub i: i64,
    pub x: u8,
    pub s: String,
    pub d: i32,
    pub m: i32,
    pub alt: bool,
}

#[derive(Clone, Debug, Serialize, Deserialize)]
pub enum Pred {
    Cmp { r: u8, op: u8, lit: Lit },
    In { r: u8, lits: Vec<Lit>, neg: bool },
    Between { r: u8, lo: Lit, hi: Lit, neg: bool },
    IsNull { r: u8, neg: bool },
    StructIsNull { neg: bool },
    And(Box<Pred>, Box<Pred>),
    Or(Box<Pred>, Box<Pred>),
    Not(Box<Pred>),
}

#[derive(Clone, Debug, Serialize, Deserialize)]
pub enum Proj {
    Ref(u8),
    Struct,
    /// `<ref> + 1` for int refs (plain ref otherwise)
    Plus1(u8),
}

#[derive(Clone, Debug, Serialize, Deserialize)]
pub enum Query {
    Select { proj: Vec<Proj>, pred: Option<Pred> },
    /// count(*), count(r), min(r), max(r)
    Agg { r: u8, pred: Option<Pred> },
}

#[derive(Clone, Debug, Serialize, Deserialize)]
pub struct Case {
    pub table: Vec<TCol>,
    pub tfields: Vec<TField>,
    pub files: Vec<FileSpec>,
    pub opts: Opts,
    pub query: Query,
}

// ---------------------------------------------------------------------------------------------
// resolved (validated) view of a case

struct RCol {
    name: String,
    kind: u8,
    ty: Option<STy>,
    fields: Vec<(u8, String, STy)>,
}

struct RTable {
    cols: Vec<RCol>,
}

/// a scalar thing a query can reference
#[derive(Clone)]
struct RefT {
    sql: String,
    vk: VK,
    ty: STy,
    /// (column kind, struct field) identity
    col: u8,
    field: Option<u8>,
}

impl RTable {
    fn resolve(case: &Case) -> Option<RTable> {
        let mut cols: Vec<RCol> = vec![];
        for c in &case.table {
            if cols.iter().any(|x| x.kind == c.kind) {
                continue; // duplicates (possible only in hand-edited cases) are dropped
            }
            if c.kind < 6 {
                let (name, vk) = SCALARS[c.kind as usize];
                cols.push(RCol { name: name.into(), kind: c.kind, ty: Some(pick(&table_types(vk), c.ty)), fields: vec![] });
            } else if c.kind == ST {
                let mut fields: Vec<(u8, String, STy)> = vec![];
                for f in &case.tfields {
                    if f.f > 3 || fields.iter().any(|x| x.0 == f.f) {
                        continue;
                    }
                    let (name, vk) = SFIELDS[f.f as usize];
                    fields.push((f.f, name.into(), pick(&table_types(vk), f.ty)));
                }
                if fields.is_empty() {
                    return None;
                }
                cols.push(RCol { name: "st".into(), kind: ST, ty: None, fields });
            }
        }
        if cols.len() < 2 || !cols.iter().any(|c| c.kind == ST) {
            return None;
        }
        Some(RTable { cols })
    }

    fn schema(&self) -> SchemaRef {
        let fields: Vec<Field> = self
            .cols
            .iter()
            .map(|c| match c.ty {
                Some(t) => Field::new(&c.name, t.arrow(), true),
                None => Field::new(&c.name, DataType::Struct(Fields::from(c.fields.iter().map(|(_, n, t)| Field::new(n, t.arrow(), true)).collect::<Vec<_>>())), true),
            })
            .collect();
        Arc::new(Schema::new(fields))
    }

    fn refs(&self) -> Vec<RefT> {
        let mut out = vec![];
        for c in &self.cols {
            match c.ty {
                Some(t) => out.push(RefT { sql: c.name.clone(), vk: SCALARS[c.kind as usize].1, ty: t, col: c.kind, field: None }),
                None => {
                    for (f, n, t) in &c.fields {
                        out.push(RefT { sql: format!("st['{n}']"), vk: SFIELDS[*f as usize].1, ty: *t, col: ST, field: Some(*f) });
                    }
                }
            }
        }
        out
    }
}

/// the physical layout of one file, validated against the table
struct RFile {
    /// (name, kind, type or struct fields, nullable-as-generated)
    cols: Vec<RFCol>,
}

struct RFCol {
    name: String,
    kind: u8,
    ty: Option<STy>,
    nullable: bool,
    /// (pool index or 255 for an extra, name, type, nullable)
    fields: Vec<(u8, String, STy, bool)>,
}

impl RFile {
    fn resolve(spec: &FileSpec, table: &RTable) -> Option<RFile> {
        let mut cols: Vec<RFCol> = vec![];
        let mut extra_n = 0;
        for c in &spec.cols {
            if c.kind < 6 {
                if cols.iter().any(|x| x.kind == c.kind) {
                    continue;
                }
                let (name, vk) = SCALARS[c.kind as usize];
                // the physical type is chosen below the table type; a column the table does not have
                // is just another extra column
                let tty = table.cols.iter().find(|t| t.kind == c.kind).and_then(|t| t.ty).unwrap_or(table_types(vk)[0]);
                cols.push(RFCol { name: name.into(), kind: c.kind, ty: Some(pick(&file_types(tty), c.ty)), nullable: c.nullable, fields: vec![] });
            } else if c.kind == ST {
                if cols.iter().any(|x| x.kind == ST) {
                    continue;
                }
                let tcol = table.cols.iter().find(|t| t.kind == ST)?;
                let mut fields: Vec<(u8, String, STy, bool)> = vec![];
                let mut extra_f = 0;
                for f in &c.fields {
                    if f.f <= 3 {
                        if fields.iter().any(|x| x.0 == f.f) {
                            continue;
                        }
                        let (name, vk) = SFIELDS[f.f as usize];
                        let tty = tcol.fields.iter().find(|t| t.0 == f.f).map(|t| t.2).unwrap_or(table_types(vk)[0]);
                        fields.push((f.f, name.into(), pick(&file_types(tty), f.ty), f.nullable));
                    } else {
                        extra_f += 1;
                        fields.push((255, format!("zf{extra_f}"), STy::I32, true));
                    }
                }
                // at least one field in common with the table struct (documented requirement)
                if !fields.iter().any(|f| tcol.fields.iter().any(|t| t.0 == f.0)) {
                    let t = &tcol.fields[0];
                    fields.push((t.0, t.1.clone(), t.2, true));
                }
                cols.push(RFCol { name: "st".into(), kind: ST, ty: None, nullable: c.nullable, fields });
            } else {
                extra_n += 1;
                cols.push(RFCol { name: format!("zz{extra_n}"), kind: 200, ty: Some(pick(&[STy::I32, STy::Utf8, STy::F64], c.ty)), nullable: true, fields: vec![] });
            }
        }
        if cols.is_empty() {
            // a Parquet file needs at least one column
            cols.push(RFCol { name: "zz0".into(), kind: 200, ty: Some(STy::I32), nullable: true, fields: vec![] });
        }
        Some(RFile { cols })
    }
}

// ---------------------------------------------------------------------------------------------
// building arrays from logical values

#[derive(Clone, Debug)]
enum LV {
    Null,
    I(i64),
    F(u8),
    S(String),
    D(i32),
    M(i16),
}

fn scalar_value(row: &RowV, kind: u8) -> LV {
    match kind {
        0 => row.n.map(|v| LV::I(v as i64)).unwrap_or(LV::Null),
        1 => row.n2.map(|v| LV::I(v as i64)).unwrap_or(LV::Null),
        2 => row.x.map(LV::F).unwrap_or(LV::Null),
        3 => row.t.clone().map(LV::S).unwrap_or(LV::Null),
        4 => row.d.map(LV::D).unwrap_or(LV::Null),
        5 => row.m.map(LV::M).unwrap_or(LV::Null),
        _ => LV::Null,
    }
}

fn field_value(st: &StV, f: u8) -> LV {
    match f {
        0 => st.p.map(|v| LV::I(v as i64)).unwrap_or(LV::Null),
        1 => st.q.clone().map(LV::S).unwrap_or(LV::Null),
        2 => st.r.map(LV::F).unwrap_or(LV::Null),
        3 => st.u.map(|v| LV::I(v as i64)).unwrap_or(LV::Null),
        _ => LV::Null,
    }
}

fn f32_of(i: u8) -> f32 {
    F32S[(i as usize).min(F32S.len() - 1)]
}

fn build(ty: STy, vals: &[LV]) -> ArrayRef {
    let ints = || vals.iter().map(|v| if let LV::I(i) = v { Some(*i) } else { None });
    let flts = || vals.iter().map(|v| if let LV::F(i) = v { Some(f32_of(*i)) } else { None });
    let strs = || vals.iter().map(|v| if let LV::S(s) = v { Some(s.clone()) } else { None });
    let days = || vals.iter().map(|v| if let LV::D(d) = v { Some(*d as i64) } else { None });
    match ty {
        STy::I16 => Arc::new(Int16Array::from_iter(ints().map(|v| v.map(|i| i as i16)))),
        STy::I32 => Arc::new(Int32Array::from_iter(ints().map(|v| v.map(|i| i as i32)))),
        STy::I64 => Arc::new(Int64Array::from_iter(ints())),
        STy::F32 => Arc::new(Float32Array::from_iter(flts())),
        STy::F64 => Arc::new(Float64Array::from_iter(flts().map(|v| v.map(|f| f as f64)))),
        STy::Utf8 => Arc::new(StringArray::from_iter(strs())),
        STy::LargeUtf8 => Arc::new(LargeStringArray::from_iter(strs())),
        STy::Utf8View => Arc::new(StringViewArray::from_iter(strs())),
        STy::DictUtf8 => {
            let v: Vec<Option<String>> = strs().collect();
            let d: DictionaryArray<datafusion::arrow::datatypes::Int32Type> = v.iter().map(|s| s.as_deref()).collect();
            Arc::new(d)
        }
        STy::Date32 => Arc::new(Date32Array::from_iter(days().map(|v| v.map(|d| d as i32)))),
        STy::Date64 => Arc::new(Date64Array::from_iter(days().map(|v| v.map(|d| d * 86_400_000)))),
        STy::TsMs => Arc::new(TimestampMillisecondArray::from_iter(days().map(|v| v.map(|d| d * 86_400_000)))),
        STy::TsUs => Arc::new(TimestampMicrosecondArray::from_iter(days().map(|v| v.map(|d| d * 86_400_000_000)))),
        STy::TsNs => Arc::new(TimestampNanosecondArray::from_iter(days().map(|v| v.map(|d| d * 86_400_000_000_000)))),
        STy::Dec(p, s) => {
            let mul = 10i128.pow((s as u32).saturating_sub(1));
            let a = Decimal128Array::from_iter(vals.iter().map(|v| if let LV::M(m) = v { Some(*m as i128 * mul) } else { None }));
            Arc::new(a.with_precision_and_scale(p, s).expect("harness: decimal precision"))
        }
    }
}

fn has_null(vals: &[LV]) -> bool {
    vals.iter().any(|v| matches!(v, LV::Null))
}

/// the batch as physically written for this file
fn file_batch(file: &RFile, rows: &[RowV]) -> RecordBatch {
    let mut fields = vec![];
    let mut arrays: Vec<ArrayRef> = vec![];
    for c in &file.cols {
        match c.ty {
            Some(t) if c.kind < 6 => {
                let vals: Vec<LV> = rows.iter().map(|r| scalar_value(r, c.kind)).collect();
                fields.push(Field::new(&c.name, t.arrow(), c.nullable || has_null(&vals)));
                arrays.push(build(t, &vals));
            }
            Some(t) => {
                // extra column: deterministic filler derived from the row position
                let vals: Vec<LV> = (0..rows.len())
                    .map(|i| match t {
                        STy::Utf8 => LV::S(format!("e{i}")),
                        STy::F64 => LV::F((i % 10) as u8),
                        _ => LV::I(i as i64 * 7 - 3),
                    })
                    .collect();
                fields.push(Field::new(&c.name, t.arrow(), true));
                arrays.push(build(t, &vals));
            }
            None => {
                let mut kid_fields = vec![];
                let mut kids: Vec<ArrayRef> = vec![];
                for (f, name, t, nullable) in &c.fields {
                    let vals: Vec<LV> = rows
                        .iter()
                        .enumerate()
                        .map(|(i, r)| match (&r.st, *f) {
                            (_, 255) => LV::I(i as i64),
                            // children under a NULL parent carry the placeholder NULL
                            (None, _) => LV::Null,
                            (Some(st), f) => field_value(st, f),
                        })
                        .collect();
                    kid_fields.push(Field::new(name, t.arrow(), *nullable || has_null(&vals)));
                    kids.push(build(*t, &vals));
                }
                let validity: Vec<bool> = rows.iter().map(|r| r.st.is_some()).collect();
                let any_null = validity.iter().any(|v| !v);
                let nulls = if any_null { Some(datafusion::arrow::buffer::NullBuffer::from(validity)) } else { None };
                let sa = StructArray::try_new(Fields::from(kid_fields.clone()), kids, nulls).expect("harness: struct array");
                fields.push(Field::new(&c.name, DataType::Struct(Fields::from(kid_fields)), c.nullable || any_null));
                arrays.push(Arc::new(sa));
            }
        }
    }
    RecordBatch::try_new(Arc::new(Schema::new(fields)), arrays).expect("harness: file batch")
}

/// the harness's own adaptation of a file's rows into the table schema
fn adapted_batch(table: &RTable, schema: &SchemaRef, file: &RFile, rows: &[RowV]) -> RecordBatch {
    let n = rows.len();
    let mut arrays: Vec<ArrayRef> = vec![];
    for c in &table.cols {
        let fcol = file.cols.iter().find(|f| f.kind == c.kind);
        match c.ty {
            Some(t) => {
                let vals: Vec<LV> = match fcol {
                    None => vec![LV::Null; n],
                    Some(_) => rows.iter().map(|r| scalar_value(r, c.kind)).collect(),
                };
                arrays.push(build(t, &vals));
            }
            None => {
                let kid_fields: Vec<Field> = c.fields.iter().map(|(_, name, t)| Field::new(name, t.arrow(), true)).collect();
                let mut kids: Vec<ArrayRef> = vec![];
                for (f, _, t) in &c.fields {
                    let present = fcol.map(|fc| fc.fields.iter().any(|x| x.0 == *f)).unwrap_or(false);
                    let vals: Vec<LV> = rows
                        .iter()
                        .map(|r| match (&r.st, present) {
                            (Some(st), true) => field_value(st, *f),
                            _ => LV::Null,
                        })
                        .collect();
                    kids.push(build(*t, &vals));
                }
                let validity: Vec<bool> = rows.iter().map(|r| fcol.is_some() && r.st.is_some()).collect();
                let sa = StructArray::try_new(Fields::from(kid_fields), kids, Some(datafusion::arrow::buffer::NullBuffer::from(validity))).expect("harness: adapted struct");
                arrays.push(Arc::new(sa));
            }
        }
    }
    RecordBatch::try_new(schema.clone(), arrays).expect("harness: adapted batch")
}

// ---------------------------------------------------------------------------------------------
// SQL rendering

const OPS: [&str; 6] = ["=", "<>", "<", "<=", ">", ">="];

fn pick_ref(refs: &[RefT], r: u8) -> &RefT {
    &refs[((r as usize) * refs.len()) >> 8]
}

const FLITS: [&str; 6] = ["0.1", "0.3", "0.10000000149011612", "16777217.0", "-0.2", "1e9"];

fn lit_sql(l: &Lit, rf: &RefT) -> String {
    match rf.vk {
        VK::Int => {
            if l.alt {
                format!("{:?}", f32_of(l.x) as f64)
            } else {
                l.i.to_string()
            }
        }
        VK::Float => {
            if l.alt {
                FLITS[(l.x as usize) % FLITS.len()].to_string()
            } else {
                format!("{:?}", f32_of(l.x) as f64)
            }
        }
        VK::Str => sql_str(&l.s),
        VK::Date => {
            let date = date_sql(l.d);
            if l.alt && !matches!(rf.ty, STy::Date32 | STy::Date64) {
                let day = date.trim_start_matches("DATE ").trim_matches('\'').to_string();
                format!("TIMESTAMP '{day} 12:00:00'")
            } else {
                date
            }
        }
        VK::Dec => {
            // l.m is unscaled at scale 2
            let neg = l.m < 0;
            let a = l.m.unsigned_abs();
            let text = format!("{}{}.{:02}", if neg { "-" } else { "" }, a / 100, a % 100);
            if l.alt { text } else { format!("CAST({text} AS DECIMAL(12,2))") }
        }
    }
}

impl Pred {
    fn sql(&self, refs: &[RefT]) -> String {
        match self {
            Pred::Cmp { r, op, lit } => {
                let rf = pick_ref(refs, *r);
                format!("{} {} {}", rf.sql, OPS[(*op as usize).min(5)], lit_sql(lit, rf))
            }
            Pred::In { r, lits, neg } => {
                let rf = pick_ref(refs, *r);
                if lits.is_empty() {
                    return format!("{} IS {}NULL", rf.sql, if *neg { "NOT " } else { "" });
                }
                format!("{} {}IN ({})", rf.sql, if *neg { "NOT " } else { "" }, lits.iter().map(|l| lit_sql(l, rf)).collect::<Vec<_>>().join(", "))
            }
            Pred::Between { r, lo, hi, neg } => {
                let rf = pick_ref(refs, *r);
                format!("{} {}BETWEEN {} AND {}", rf.sql, if *neg { "NOT " } else { "" }, lit_sql(lo, rf), lit_sql(hi, rf))
            }
            Pred::IsNull { r, neg } => format!("{} IS {}NULL", pick_ref(refs, *r).sql, if *neg { "NOT " } else { "" }),
            Pred::StructIsNull { neg } => format!("st IS {}NULL", if *neg { "NOT " } else { "" }),
            Pred::And(a, b) => format!("({} AND {})", a.sql(refs), b.sql(refs)),
            Pred::Or(a, b) => format!("({} OR {})", a.sql(refs), b.sql(refs)),
            Pred::Not(a) => format!("(NOT {})", a.sql(refs)),
        }
    }
    fn touched(&self, refs: &[RefT], out: &mut Vec<(u8, Option<u8>)>) {
        match self {
            Pred::Cmp { r, .. } | Pred::In { r, .. } | Pred::Between { r, .. } | Pred::IsNull { r, .. } => {
                let rf = pick_ref(refs, *r);
                out.push((rf.col, rf.field));
            }
            Pred::StructIsNull { .. } => out.push((ST, None)),
            Pred::And(a, b) | Pred::Or(a, b) => {
                a.touched(refs, out);
                b.touched(refs, out);
            }
            Pred::Not(a) => a.touched(refs, out),
        }
    }
}

fn query_sql(q: &Query, refs: &[RefT]) -> String {
    match q {
        Query::Select { proj, pred } => {
            let mut items: Vec<String> = proj
                .iter()
                .enumerate()
                .map(|(i, p)| match p {
                    Proj::Ref(r) => format!("{} AS c{i}", pick_ref(refs, *r).sql),
                    Proj::Struct => format!("st AS c{i}"),
                    Proj::Plus1(r) => {
                        let rf = pick_ref(refs, *r);
                        if rf.vk == VK::Int { format!("{} + 1 AS c{i}", rf.sql) } else { format!("{} AS c{i}", rf.sql) }
                    }
                })
                .collect();
            if items.is_empty() {
                items.push("*".into());
            }
            let mut s = format!("SELECT {} FROM t", items.join(", "));
            if let Some(p) = pred {
                s.push_str(&format!(" WHERE {}", p.sql(refs)));
            }
            s
        }
        Query::Agg { r, pred } => {
            let rf = pick_ref(refs, *r);
            let mut s = format!("SELECT count(*) AS c0, count({0}) AS c1, min({0}) AS c2, max({0}) AS c3 FROM t", rf.sql);
            if let Some(p) = pred {
                s.push_str(&format!(" WHERE {}", p.sql(refs)));
            }
            s
        }
    }
}

// ---------------------------------------------------------------------------------------------
// generators

fn str_strategy() -> BoxedStrategy<String> {
    prop_oneof![3 => prop::sample::select(vec!["", "a", "ab", "abc", "b", "ba", "zz", "é", "A", "a%", "\u{10FFFF}", "abababababababababababababababababababababababababababababababababab1"]).prop_map(|s| s.to_string()), 1 => "[a-c]{0,3}".prop_map(|s| s)].boxed()
}

fn opt<T: std::fmt::Debug + Clone + 'static>(w: u8, s: BoxedStrategy<T>) -> BoxedStrategy<Option<T>> {
    match w {
        0 => s.prop_map(Some).boxed(),
        1 => prop::option::weighted(0.85, s).boxed(),
        _ => prop::option::weighted(0.4, s).boxed(),
    }
}

fn int_strategy() -> BoxedStrategy<i16> {
    prop_oneof![10 => -30i16..30, 1 => prop::sample::select(vec![i16::MAX, i16::MIN, 1000, -1000])].boxed()
}

fn row_strategy(nulls: [u8; 8]) -> BoxedStrategy<RowV> {
    let st = (opt(nulls[6], int_strategy()), opt(nulls[6], str_strategy()), opt(nulls[6], (0u8..14).boxed()), opt(nulls[6], int_strategy())).prop_map(|(p, q, r, u)| StV { p, q, r, u });
    (
        opt(nulls[0], int_strategy()),
        opt(nulls[1], int_strategy()),
        opt(nulls[2], (0u8..14).boxed()),
        opt(nulls[3], str_strategy()),
        opt(nulls[4], prop_oneof![10 => 18000i32..18040, 1 => Just(0i32), 1 => Just(-400i32)].boxed()),
        opt(nulls[5], prop_oneof![10 => -300i16..300, 1 => Just(9999i16), 1 => Just(-9999i16)].boxed()),
        opt(nulls[7], st.boxed()),
    )
        .prop_map(|(n, n2, x, t, d, m, st)| RowV { n, n2, x, t, d, m, st })
        .boxed()
}

fn file_strategy(max_rows: usize, table_kinds: Vec<u8>) -> BoxedStrategy<FileSpec> {
    // physical columns: each table column kept with probability ~75 %, type choice, shuffled by a key; extras
    let n = table_kinds.len();
    let per_col = prop::collection::vec((prop::bool::weighted(0.75), any::<u8>(), any::<bool>(), any::<u16>()), n..=n);
    let extras = prop::collection::vec((any::<u8>(), any::<u16>()), 0..3);
    let sfields = prop::collection::vec((prop_oneof![5 => 0u8..4, 1 => Just(9u8)], prop_oneof![2 => Just(0u8), 1 => any::<u8>()], any::<bool>()), 0..6);
    let nulls = prop::array::uniform8(prop_oneof![3 => Just(0u8), 3 => Just(1u8), 1 => Just(2u8)]);
    (per_col, extras, sfields, nulls)
        .prop_flat_map(move |(per_col, extras, sfields, nulls)| {
            let mut keyed: Vec<(u16, FCol)> = vec![];
            for (i, (keep, ty, nullable, key)) in per_col.iter().enumerate() {
                if !*keep {
                    continue;
                }
                let kind = table_kinds[i];
                // identical type half of the time
                let ty = if *key % 2 == 0 { 0 } else { *ty };
                let fields = if kind == ST { sfields.iter().map(|(f, ty, nullable)| FField { f: *f, ty: *ty, nullable: *nullable }).collect() } else { vec![] };
                keyed.push((*key, FCol { kind, ty, nullable: *nullable, fields }));
            }
            for (ty, key) in &extras {
                keyed.push((*key, FCol { kind: 7, ty: *ty, nullable: true, fields: vec![] }));
            }
            keyed.sort_by_key(|k| k.0);
            let cols: Vec<FCol> = keyed.into_iter().map(|k| k.1).collect();
            prop::collection::vec(row_strategy(nulls), 1..=max_rows).prop_map(move |rows| FileSpec { cols: cols.clone(), rows })
        })
        .boxed()
}

fn lit_strategy() -> BoxedStrategy<Lit> {
    (
        prop_oneof![8 => -35i64..35, 1 => prop::sample::select(vec![32767i64, 32768, -32768, -32769, 40000, 2147483647, 2147483648, -2147483649, 3_000_000_000, -3_000_000_000, i64::MAX, i64::MIN + 1])],
        0u8..14,
        str_strategy(),
        prop_oneof![8 => 17995i32..18045, 1 => Just(0i32), 1 => Just(-400i32)],
        prop_oneof![8 => -3100i32..3100, 1 => Just(99990i32), 1 => Just(-99990i32), 1 => Just(12345678i32)],
        prop::bool::weighted(0.2),
    )
        .prop_map(|(i, x, s, d, m, alt)| Lit { i, x, s, d, m, alt })
        .boxed()
}

fn pred_strategy() -> BoxedStrategy<Pred> {
    let leaf = prop_oneof![
        6 => (any::<u8>(), 0u8..6, lit_strategy()).prop_map(|(r, op, lit)| Pred::Cmp { r, op, lit }),
        2 => (any::<u8>(), prop::collection::vec(lit_strategy(), 1..4), any::<bool>()).prop_map(|(r, lits, neg)| Pred::In { r, lits, neg }),
        2 => (any::<u8>(), lit_strategy(), lit_strategy(), prop::bool::weighted(0.25)).prop_map(|(r, lo, hi, neg)| Pred::Between { r, lo, hi, neg }),
        2 => (any::<u8>(), any::<bool>()).prop_map(|(r, neg)| Pred::IsNull { r, neg }),
        1 => any::<bool>().prop_map(|neg| Pred::StructIsNull { neg }),
    ];
    leaf.prop_recursive(2, 6, 2, |inner| {
        prop_oneof![
            3 => (inner.clone(), inner.clone()).prop_map(|(a, b)| Pred::And(Box::new(a), Box::new(b))),
            2 => (inner.clone(), inner.clone()).prop_map(|(a, b)| Pred::Or(Box::new(a), Box::new(b))),
            1 => inner.prop_map(|a| Pred::Not(Box::new(a))),
        ]
    })
    .boxed()
}

fn query_strategy() -> BoxedStrategy<Query> {
    let proj = prop_oneof![6 => any::<u8>().prop_map(Proj::Ref), 1 => Just(Proj::Struct), 1 => any::<u8>().prop_map(Proj::Plus1)];
    prop_oneof![
        6 => (prop::collection::vec(proj, 0..5), prop::option::weighted(0.9, pred_strategy())).prop_map(|(proj, pred)| Query::Select { proj, pred }),
        1 => (any::<u8>(), prop::option::weighted(0.4, pred_strategy())).prop_map(|(r, pred)| Query::Agg { r, pred }),
    ]
    .boxed()
}

fn opts_strategy() -> BoxedStrategy<Opts> {
    let on = || prop::bool::weighted(0.85);
    (
        (any::<bool>(), any::<bool>(), on(), on(), on(), any::<bool>(), prop::bool::weighted(0.6)),
        (on(), 1usize..4, prop_oneof![1 => Just(2usize), 1 => Just(7usize), 2 => Just(8192usize)], 3usize..60, prop_oneof![1 => Just(0u8), 2 => Just(1u8), 3 => Just(2u8)], any::<bool>(), any::<bool>(), any::<bool>()),
    )
        .prop_map(|((pushdown, reorder, pruning, page_index, bloom_read, view_types, skip_metadata), (collect_stats, partitions, batch_size, rg, stats, bloom, dict, force_sel))| Opts {
            pushdown,
            reorder,
            pruning,
            page_index,
            bloom_read,
            view_types,
            skip_metadata,
            collect_stats,
            partitions,
            batch_size,
            rg,
            stats,
            bloom,
            dict,
            force_sel,
        })
        .boxed()
}

fn case_strategy(max_rows: usize) -> BoxedStrategy<Case> {
    // table: the struct + 1..=5 distinct scalar kinds, ordered by a generated key
    let scalars = prop::collection::vec((any::<bool>(), any::<u8>(), any::<u16>()), 6..=6);
    let tfields = prop::collection::vec((any::<bool>(), any::<u8>(), any::<u16>()), 4..=4);
    (scalars, tfields, any::<u16>(), 1usize..4)
        .prop_flat_map(move |(scalars, tfields, st_key, nfiles)| {
            let mut keyed: Vec<(u16, TCol)> = vec![(st_key, TCol { kind: ST, ty: 0 })];
            for (i, (keep, ty, key)) in scalars.iter().enumerate() {
                if *keep {
                    keyed.push((*key, TCol { kind: i as u8, ty: *ty }));
                }
            }
            if keyed.len() < 2 {
                keyed.push((scalars[0].2, TCol { kind: 0, ty: scalars[0].1 }));
            }
            keyed.sort_by_key(|k| k.0);
            let table: Vec<TCol> = keyed.into_iter().map(|k| k.1).collect();
            let mut fk: Vec<(u16, TField)> = vec![];
            for (i, (keep, ty, key)) in tfields.iter().enumerate() {
                if *keep {
                    fk.push((*key, TField { f: i as u8, ty: *ty }));
                }
            }
            if fk.is_empty() {
                fk.push((0, TField { f: 0, ty: tfields[0].1 }));
            }
            fk.sort_by_key(|k| k.0);
            let tf: Vec<TField> = fk.into_iter().map(|k| k.1).collect();
            let kinds: Vec<u8> = table.iter().map(|c| c.kind).collect();
            (Just(table), Just(tf), prop::collection::vec(file_strategy(max_rows, kinds), nfiles..=nfiles), opts_strategy(), query_strategy())
        })
        .prop_map(|(table, tfields, files, opts, query)| Case { table, tfields, files, opts, query })
        .boxed()
}

// ---------------------------------------------------------------------------------------------
// running

enum Fail {
    Discard(String),
    Violation(String),
    Harness(String),
}

struct Done {
    got: RunOut,
    want: RunOut,
    sql: String,
}

fn write_file(path: &std::path::Path, batch: &RecordBatch, o: &Opts) -> Result<(), String> {
    let stats = match o.stats {
        0 => EnabledStatistics::None,
        1 => EnabledStatistics::Chunk,
        _ => EnabledStatistics::Page,
    };
    let props = WriterProperties::builder()
        .set_max_row_group_row_count(Some(o.rg.max(1)))
        .set_data_page_row_count_limit(8)
        .set_write_batch_size(4)
        .set_statistics_enabled(stats)
        .set_bloom_filter_enabled(o.bloom)
        .set_dictionary_enabled(o.dict)
        .build();
    let file = std::fs::File::create(path).map_err(|e| e.to_string())?;
    let mut w = ArrowWriter::try_new(file, batch.schema(), Some(props)).map_err(|e| e.to_string())?;
    w.write(batch).map_err(|e| e.to_string())?;
    w.close().map_err(|e| e.to_string())?;
    Ok(())
}

async fn execute(case: &Case, table: &RTable, files: &[RFile], dir: &std::path::Path) -> Result<Done, Fail> {
    let schema = table.schema();
    let refs = table.refs();
    let sql = query_sql(&case.query, &refs);
    let mem_ctx = new_ctx(&[("datafusion.execution.target_partitions".to_string(), "1".to_string())]);
    let parts: Vec<Vec<RecordBatch>> = case.files.iter().zip(files).map(|(spec, rf)| vec![adapted_batch(table, &schema, rf, &spec.rows)]).collect();
    let mem = MemTable::try_new(schema.clone(), parts).map_err(|e| Fail::Harness(format!("memtable: {e}")))?;
    mem_ctx.register_table("t", Arc::new(mem)).map_err(|e| Fail::Harness(format!("register mem: {e}")))?;
    let want = match run_sql(&mem_ctx, &sql).await {
        Ok(o) => o,
        Err(RunErr::Df(e)) => return Err(Fail::Discard(format!("reference query fails: {}", truncate(&e.to_string(), 80)))),
        Err(RunErr::Harness(h)) => return Err(Fail::Harness(h)),
    };

    let o = &case.opts;
    let p = "datafusion.execution.parquet.";
    let cfg = new_cfg(&[
        (format!("{p}pushdown_filters"), o.pushdown.to_string()),
        (format!("{p}reorder_filters"), o.reorder.to_string()),
        (format!("{p}force_filter_selections"), o.force_sel.to_string()),
        (format!("{p}pruning"), o.pruning.to_string()),
        (format!("{p}enable_page_index"), o.page_index.to_string()),
        (format!("{p}bloom_filter_on_read"), o.bloom_read.to_string()),
        (format!("{p}schema_force_view_types"), o.view_types.to_string()),
        (format!("{p}skip_metadata"), o.skip_metadata.to_string()),
        ("datafusion.execution.collect_statistics".into(), o.collect_stats.to_string()),
        ("datafusion.execution.target_partitions".into(), o.partitions.max(1).to_string()),
        ("datafusion.execution.batch_size".into(), o.batch_size.max(1).to_string()),
    ]);
    let ctx = SessionContext::new_with_config(cfg);
    let format = ParquetFormat::new().with_options(ctx.state().default_table_options().parquet.clone());
    let lo = ListingOptions::new(Arc::new(format)).with_file_extension(".parquet");
    let url = format!("{}/", dir.display());
    if let Err(e) = ctx.register_listing_table("t", &url, lo, Some(schema.clone()), None).await {
        if is_clean_reject(&e) {
            return Err(Fail::Discard(format!("registration rejected: {}", truncate(&e.to_string(), 80))));
        }
        return Err(Fail::Violation(format!("registering the listing table failed: {e}")));
    }
    let got = match run_sql(&ctx, &sql).await {
        Ok(o) => o,
        Err(RunErr::Df(e)) => {
            let text = e.to_string();
            if is_clean_reject(&e) {
                return Err(Fail::Discard(format!("engine rejects: {}", truncate(&text, 80))));
            }
            return Err(Fail::Violation(format!("query over the Parquet files fails while the reference succeeds: {text}\n  sql: {sql}")));
        }
        Err(RunErr::Harness(h)) => return Err(Fail::Harness(h)),
    };
    Ok(Done { got, want, sql })
}

impl Property for C44 {
    type Case = Case;
    fn id(&self) -> &'static str {
        "C44"
    }
    fn sub(&self) -> &'static str {
        "c44"
    }
    fn strategy(&self, tier: Tier) -> BoxedStrategy<Case> {
        case_strategy(tier.pick(40, 150))
    }
    fn budget(&self, tier: Tier) -> Budget {
        Budget::new(tier.pick(1_500, 30_000), tier.pick(8, 16)).min_nontrivial(tier.pick(200, 5000)).case_timeout(300)
    }
    fn rule(&self) -> String {
        "table schema = struct column + 1-5 typed scalar columns; 1-3 Parquet files whose physical schemas permute / drop / add columns and struct fields and use lower types of a value-preserving lattice; \
         SQL projections / predicates / aggregates compared with the same SQL over a MemTable of the harness-adapted rows. \
         non-trivial = >= 2 files with different physical schemas, some column or field missing and some retyped, and the predicate references a missing or retyped column/field; distinct by case JSON"
            .into()
    }
    fn assumptions(&self) -> Vec<String> {
        vec![
            "DataFusion's evaluation of the same SQL over a MemTable in the table schema is the reference for the query semantics".into(),
            "only value-preserving (widening / re-encoding) type differences are generated; table fields are nullable".into(),
            "the parquet ArrowWriter stores the generated batches faithfully".into(),
        ]
    }
    fn known_signature(&self, case: &Case) -> Option<String> {
        // open finding "dictionary-column-statistics-interval" (see known_findings.json)
        let has_pred = match &case.query {
            Query::Select { pred, .. } | Query::Agg { pred, .. } => pred.is_some(),
        };
        let dict_col = case.table.iter().any(|c| c.kind == 3 && pick(&table_types(VK::Str), c.ty) == STy::DictUtf8);
        if dict_col && case.opts.collect_stats && has_pred {
            return Some("dictionary-table-column+collect-statistics+filter".into());
        }
        // open finding shared with C24 (parquet push decoder, mask strategy over sparsely fetched pages)
        if case.opts.pushdown && !case.opts.force_sel && case.opts.batch_size < 64 && has_pred {
            return Some("pushdown+mask+predicate-cache+small-batch".into());
        }
        None
    }
    fn run(&self, case: &Case) -> CaseResult {
        let Some(table) = RTable::resolve(case) else { return CaseResult::discard("outside domain: table schema") };
        if case.files.is_empty() || case.files.len() > 6 {
            return CaseResult::discard("outside domain: file count");
        }
        let mut files = vec![];
        for f in &case.files {
            match RFile::resolve(f, &table) {
                Some(r) => files.push(r),
                None => return CaseResult::discard("outside domain: file schema"),
            }
        }
        let dir = match tempfile::tempdir() {
            Ok(d) => d,
            Err(e) => return CaseResult::inconclusive(format!("tempdir: {e}")),
        };
        for (i, (spec, rf)) in case.files.iter().zip(&files).enumerate() {
            let batch = file_batch(rf, &spec.rows);
            if let Err(e) = write_file(&dir.path().join(format!("f{i}.parquet")), &batch, &case.opts) {
                return CaseResult::inconclusive(format!("writing parquet failed: {e}"));
            }
        }
        // classification
        let refs = table.refs();
        let mut labels: Vec<String> = vec![format!("files={}", files.len()), format!("table-cols={}", table.cols.len())];
        let mut missing: Vec<(u8, Option<u8>)> = vec![];
        let mut retyped: Vec<(u8, Option<u8>)> = vec![];
        for rf in &files {
            for c in &table.cols {
                let fc = rf.cols.iter().find(|f| f.kind == c.kind);
                match (c.ty, fc) {
                    (_, None) => {
                        missing.push((c.kind, None));
                        if c.kind == ST {
                            labels.push("struct-missing".into());
                            for (f, _, _) in &c.fields {
                                missing.push((ST, Some(*f)));
                            }
                        } else {
                            labels.push("col-missing".into());
                        }
                    }
                    (Some(t), Some(fc)) => {
                        if fc.ty != Some(t) {
                            retyped.push((c.kind, None));
                            labels.push(format!("cast:{:?}->{:?}", fc.ty.unwrap_or(t), t).replace("Dec(", "Dec").replace(", ", "_").replace(')', ""));
                        }
                    }
                    (None, Some(fc)) => {
                        let tnames: Vec<u8> = c.fields.iter().map(|f| f.0).collect();
                        let fnames: Vec<u8> = fc.fields.iter().map(|f| f.0).collect();
                        for (f, _, t) in &c.fields {
                            match fc.fields.iter().find(|x| x.0 == *f) {
                                None => {
                                    missing.push((ST, Some(*f)));
                                    labels.push("field-missing".into());
                                }
                                Some(x) if x.2 != *t => {
                                    retyped.push((ST, Some(*f)));
                                    labels.push("field-retyped".into());
                                }
                                _ => {}
                            }
                        }
                        if fnames.iter().any(|f| *f == 255 || !tnames.contains(f)) {
                            labels.push("field-extra".into());
                        }
                        let common_f: Vec<u8> = fnames.iter().copied().filter(|f| tnames.contains(f)).collect();
                        let common_t: Vec<u8> = tnames.iter().copied().filter(|f| fnames.contains(f)).collect();
                        if common_f != common_t {
                            labels.push("field-reordered".into());
                        }
                    }
                }
            }
            if rf.cols.iter().any(|c| c.kind >= 7 || !table.cols.iter().any(|t| t.kind == c.kind)) {
                labels.push("col-extra".into());
            }
            let common_f: Vec<u8> = rf.cols.iter().map(|c| c.kind).filter(|k| table.cols.iter().any(|t| t.kind == *k)).collect();
            let common_t: Vec<u8> = table.cols.iter().map(|c| c.kind).filter(|k| common_f.contains(k)).collect();
            if common_f != common_t {
                labels.push("col-reordered".into());
            }
        }
        let sig = |rf: &RFile| rf.cols.iter().map(|c| format!("{}:{:?}:{:?}", c.name, c.ty, c.fields.iter().map(|f| (f.1.clone(), f.2)).collect::<Vec<_>>())).collect::<Vec<_>>().join("|");
        let sigs: Vec<String> = files.iter().map(sig).collect();
        let differ = sigs.iter().any(|s| s != &sigs[0]);
        let pred = match &case.query {
            Query::Select { pred, .. } | Query::Agg { pred, .. } => pred.as_ref(),
        };
        let mut touched = vec![];
        if let Some(p) = pred {
            p.touched(&refs, &mut touched);
        }
        let adapted_touch = touched.iter().any(|t| missing.contains(t) || retyped.contains(t) || (t.0 == ST && t.1.is_none() && missing.contains(&(ST, None))));
        if touched.iter().any(|t| missing.contains(t)) {
            labels.push("pred-on-missing".into());
        }
        if touched.iter().any(|t| retyped.contains(t)) {
            labels.push("pred-on-retyped".into());
        }
        if touched.iter().any(|t| t.0 == ST) {
            labels.push("pred-on-struct-field".into());
        }
        match &case.query {
            Query::Agg { .. } => labels.push("q:agg".into()),
            Query::Select { proj, .. } => {
                if proj.iter().any(|p| matches!(p, Proj::Struct)) || proj.is_empty() {
                    labels.push("q:whole-struct".into());
                }
            }
        }
        let o = &case.opts;
        for (on, name) in [(o.pushdown, "o:pushdown_filters"), (o.pushdown && o.force_sel, "o:force_filter_selections"), (o.view_types, "o:view-types"), (!o.skip_metadata, "o:arrow-metadata-used"), (o.collect_stats, "o:collect-stats"), (o.partitions > 1, "o:partitions>1"), (o.bloom, "w:bloom")] {
            if on {
                labels.push(name.into());
            }
        }
        labels.sort();
        labels.dedup();
        let nt = files.len() >= 2 && differ && !missing.is_empty() && !retyped.is_empty() && adapted_touch;

        let res = block_on_timeout(1, 60, execute(case, &table, &files, dir.path()));
        let done = match res {
            Timed::TimedOut => return CaseResult::inconclusive("timeout (60 s)").labels(labels),
            Timed::Done(Err(Fail::Discard(why))) => return CaseResult::discard(why).labels(labels),
            Timed::Done(Err(Fail::Harness(h))) => return CaseResult::discard(format!("harness limitation: {h}")).labels(labels),
            Timed::Done(Err(Fail::Violation(m))) => {
                return CaseResult::violation(format!("{m}\n  table: {}\n  files: {}", table.schema(), sigs.join(" ;; "))).nontrivial(nt).labels(labels);
            }
            Timed::Done(Ok(d)) => d,
        };
        let m = scan_metrics(&done.got.plan);
        for name in ["row_groups_pruned_statistics", "row_groups_pruned_bloom_filter", "page_index_rows_pruned", "pushdown_rows_pruned", "files_ranges_pruned_statistics"] {
            if m.get(name).copied().unwrap_or(0) > 0 {
                labels.push(format!("m:{name}"));
            }
        }
        labels.push(if done.want.rows.is_empty() { "ref:empty" } else { "ref:rows" }.to_string());
        let gt: Vec<String> = done.got.schema.fields().iter().map(|f| norm_type(f.data_type())).collect();
        let wt: Vec<String> = done.want.schema.fields().iter().map(|f| norm_type(f.data_type())).collect();
        let verdict = if gt != wt { Some(format!("result types differ: parquet {gt:?} vs reference {wt:?}")) } else { multiset_diff(&done.got.rows, &done.want.rows) };
        match verdict {
            None => CaseResult::pass().nontrivial(nt).labels(labels),
            Some(msg) => CaseResult::violation(format!(
                "{msg}\n  sql: {}\n  table: {}\n  files: {}\n  options: {:?}\n  metrics: {:?}\n  plan:\n{}",
                done.sql,
                table.schema(),
                sigs.join(" ;; "),
                case.opts,
                m,
                plan_text(&done.got.plan)
            ))
            .nontrivial(nt)
            .labels(labels),
        }
    }
}
