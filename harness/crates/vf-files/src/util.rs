//! Helpers shared by C24 / C44: fresh session from string options, SQL -> plain rows, per-case tokio
//! runtime with a timeout, scan metrics of the executed plan, multiset comparison.
//! (The shared `vf-df` runner did not exist when this crate was written; everything needed is here.)
use datafusion::arrow::array::*;
use datafusion::arrow::datatypes::*;
use datafusion::arrow::record_batch::RecordBatch;
use datafusion::common::DataFusionError;
use datafusion::physical_plan::metrics::MetricValue;
use datafusion::physical_plan::{ExecutionPlan, collect};
use datafusion::prelude::*;
use std::collections::BTreeMap;
use std::sync::Arc;
use std::time::Duration;

/// One plain value of a result row. Floats are kept as normalised bit patterns (NaN canonical).
#[derive(Clone, Debug, PartialEq, Eq, PartialOrd, Ord, Hash)]
#[allow(dead_code)]
pub enum Cell {
    Null,
    Bool(bool),
    Int(i128),
    Float(u64),
    Str(String),
    Bytes(Vec<u8>),
    Struct(Vec<(String, Cell)>),
    List(Vec<Cell>),
}

impl Cell {
    pub fn float(v: f64) -> Cell {
        if v.is_nan() { Cell::Float(f64::NAN.to_bits()) } else { Cell::Float(v.to_bits()) }
    }
    pub fn show(&self) -> String {
        match self {
            Cell::Null => "NULL".into(),
            Cell::Bool(b) => b.to_string(),
            Cell::Int(i) => i.to_string(),
            Cell::Float(b) => format!("{:?}", f64::from_bits(*b)),
            Cell::Str(s) => format!("{s:?}"),
            Cell::Bytes(b) => format!("x{b:?}"),
            Cell::Struct(fs) => format!("{{{}}}", fs.iter().map(|(n, c)| format!("{n}:{}", c.show())).collect::<Vec<_>>().join(",")),
            Cell::List(v) => format!("[{}]", v.iter().map(|c| c.show()).collect::<Vec<_>>().join(",")),
        }
    }
}

pub fn show_row(r: &[Cell]) -> String {
    format!("({})", r.iter().map(|c| c.show()).collect::<Vec<_>>().join(", "))
}

/// Convert one array to plain cells. Returns Err for a type the harness does not model (harness
/// limitation -> the caller discards, never a violation).
pub fn cells_of(a: &ArrayRef) -> Result<Vec<Cell>, String> {
    let n = a.len();
    macro_rules! prim {
        ($t:ty, $f:expr) => {{
            let arr = a.as_any().downcast_ref::<$t>().ok_or("downcast")?;
            Ok((0..n).map(|i| if arr.is_null(i) { Cell::Null } else { $f(arr.value(i)) }).collect())
        }};
    }
    match a.data_type() {
        DataType::Null => Ok(vec![Cell::Null; n]),
        DataType::Boolean => prim!(BooleanArray, Cell::Bool),
        DataType::Int8 => prim!(Int8Array, |v| Cell::Int(v as i128)),
        DataType::Int16 => prim!(Int16Array, |v| Cell::Int(v as i128)),
        DataType::Int32 => prim!(Int32Array, |v| Cell::Int(v as i128)),
        DataType::Int64 => prim!(Int64Array, |v| Cell::Int(v as i128)),
        DataType::UInt8 => prim!(UInt8Array, |v| Cell::Int(v as i128)),
        DataType::UInt16 => prim!(UInt16Array, |v| Cell::Int(v as i128)),
        DataType::UInt32 => prim!(UInt32Array, |v| Cell::Int(v as i128)),
        DataType::UInt64 => prim!(UInt64Array, |v| Cell::Int(v as i128)),
        DataType::Float32 => prim!(Float32Array, |v: f32| Cell::float(v as f64)),
        DataType::Float64 => prim!(Float64Array, Cell::float),
        DataType::Utf8 => prim!(StringArray, |v: &str| Cell::Str(v.to_string())),
        DataType::LargeUtf8 => prim!(LargeStringArray, |v: &str| Cell::Str(v.to_string())),
        DataType::Utf8View => prim!(StringViewArray, |v: &str| Cell::Str(v.to_string())),
        DataType::Binary => prim!(BinaryArray, |v: &[u8]| Cell::Bytes(v.to_vec())),
        DataType::LargeBinary => prim!(LargeBinaryArray, |v: &[u8]| Cell::Bytes(v.to_vec())),
        DataType::BinaryView => prim!(BinaryViewArray, |v: &[u8]| Cell::Bytes(v.to_vec())),
        DataType::Date32 => prim!(Date32Array, |v| Cell::Int(v as i128)),
        DataType::Date64 => prim!(Date64Array, |v| Cell::Int(v as i128)),
        DataType::Timestamp(TimeUnit::Second, _) => prim!(TimestampSecondArray, |v| Cell::Int(v as i128)),
        DataType::Timestamp(TimeUnit::Millisecond, _) => prim!(TimestampMillisecondArray, |v| Cell::Int(v as i128)),
        DataType::Timestamp(TimeUnit::Microsecond, _) => prim!(TimestampMicrosecondArray, |v| Cell::Int(v as i128)),
        DataType::Timestamp(TimeUnit::Nanosecond, _) => prim!(TimestampNanosecondArray, |v| Cell::Int(v as i128)),
        DataType::Decimal32(_, _) => prim!(Decimal32Array, |v| Cell::Int(v as i128)),
        DataType::Decimal64(_, _) => prim!(Decimal64Array, |v| Cell::Int(v as i128)),
        DataType::Decimal128(_, _) => prim!(Decimal128Array, Cell::Int),
        DataType::Dictionary(_, vt) => {
            let plain = datafusion::arrow::compute::cast(a, vt).map_err(|e| format!("dictionary unpack: {e}"))?;
            cells_of(&plain)
        }
        DataType::Struct(fields) => {
            let arr = a.as_any().downcast_ref::<StructArray>().ok_or("downcast")?;
            let mut kids = vec![];
            for (i, f) in fields.iter().enumerate() {
                kids.push((f.name().clone(), cells_of(arr.column(i))?));
            }
            Ok((0..n)
                .map(|i| {
                    if arr.is_null(i) {
                        Cell::Null
                    } else {
                        Cell::Struct(kids.iter().map(|(name, v)| (name.clone(), v[i].clone())).collect())
                    }
                })
                .collect())
        }
        other => Err(format!("harness does not model result type {other}")),
    }
}

pub fn rows_of(batches: &[RecordBatch]) -> Result<Vec<Vec<Cell>>, String> {
    let mut rows = vec![];
    for b in batches {
        let cols: Vec<Vec<Cell>> = b.columns().iter().map(cells_of).collect::<Result<_, _>>()?;
        for i in 0..b.num_rows() {
            rows.push(cols.iter().map(|c| c[i].clone()).collect());
        }
    }
    Ok(rows)
}

/// data type with representation-only differences removed (string / binary flavours, dictionary,
/// field nullability and metadata); used to compare result schemas of the two runs
pub fn norm_type(t: &DataType) -> String {
    match t {
        DataType::Utf8 | DataType::LargeUtf8 | DataType::Utf8View => "Utf8".into(),
        DataType::Binary | DataType::LargeBinary | DataType::BinaryView => "Binary".into(),
        DataType::Dictionary(_, v) => norm_type(v),
        DataType::Struct(fs) => format!("Struct({})", fs.iter().map(|f| format!("{}:{}", f.name(), norm_type(f.data_type()))).collect::<Vec<_>>().join(",")),
        other => format!("{other}"),
    }
}

pub struct RunOut {
    pub schema: SchemaRef,
    pub rows: Vec<Vec<Cell>>,
    pub plan: Arc<dyn ExecutionPlan>,
}

#[derive(Debug)]
pub enum RunErr {
    /// error from the engine
    Df(DataFusionError),
    /// harness limitation
    Harness(String),
}

pub async fn run_sql(ctx: &SessionContext, sql: &str) -> Result<RunOut, RunErr> {
    let df = ctx.sql(sql).await.map_err(RunErr::Df)?;
    let plan = df.create_physical_plan().await.map_err(RunErr::Df)?;
    let batches = collect(plan.clone(), ctx.task_ctx()).await.map_err(RunErr::Df)?;
    let schema = plan.schema();
    let rows = rows_of(&batches).map_err(RunErr::Harness)?;
    Ok(RunOut { schema, rows, plan })
}

/// root-cause classification: errors that mean "the engine cleanly refuses this construct"
pub fn is_clean_reject(e: &DataFusionError) -> bool {
    let mut cur = e;
    loop {
        match cur {
            DataFusionError::NotImplemented(_) | DataFusionError::Plan(_) | DataFusionError::SchemaError(_, _) | DataFusionError::SQL(_, _) => return true,
            DataFusionError::Context(_, inner) => cur = inner,
            DataFusionError::Diagnostic(_, inner) => cur = inner,
            DataFusionError::Shared(inner) => cur = inner,
            _ => return false,
        }
    }
}

pub fn new_cfg(opts: &[(String, String)]) -> SessionConfig {
    let mut cfg = SessionConfig::new();
    for (k, v) in opts {
        // an unknown key is a harness bug (exit 2), never a verdict
        cfg.options_mut().set(k, v).unwrap_or_else(|e| panic!("harness: bad option {k}={v}: {e}"));
    }
    cfg
}

pub fn new_ctx(opts: &[(String, String)]) -> SessionContext {
    SessionContext::new_with_config(new_cfg(opts))
}

pub enum Timed<T> {
    Done(T),
    TimedOut,
}

/// Run `fut` on a private runtime (current-thread for `workers <= 1`).
pub fn block_on_timeout<F: std::future::Future>(workers: usize, secs: u64, fut: F) -> Timed<F::Output> {
    let rt = if workers <= 1 {
        tokio::runtime::Builder::new_current_thread().enable_all().build()
    } else {
        tokio::runtime::Builder::new_multi_thread().worker_threads(workers).enable_all().build()
    }
    .expect("tokio runtime");
    let r = rt.block_on(async { tokio::time::timeout(Duration::from_secs(secs), fut).await });
    rt.shutdown_timeout(Duration::from_secs(2));
    match r {
        Ok(v) => Timed::Done(v),
        Err(_) => Timed::TimedOut,
    }
}

/// Sum the scan metrics of every leaf `DataSourceExec` (pruning metrics contribute their `pruned`
/// part under `<name>` and their `matched` part under `<name>.matched`).
pub fn scan_metrics(plan: &Arc<dyn ExecutionPlan>) -> BTreeMap<String, u64> {
    let mut out = BTreeMap::new();
    fn walk(p: &Arc<dyn ExecutionPlan>, out: &mut BTreeMap<String, u64>) {
        if p.children().is_empty() {
            if let Some(ms) = p.metrics() {
                for m in ms.iter() {
                    match m.value() {
                        MetricValue::PruningMetrics { name, pruning_metrics } => {
                            *out.entry(name.to_string()).or_default() += pruning_metrics.pruned() as u64;
                            *out.entry(format!("{name}.matched")).or_default() += pruning_metrics.matched() as u64;
                        }
                        MetricValue::Count { name, count } => {
                            *out.entry(name.to_string()).or_default() += count.value() as u64;
                        }
                        MetricValue::OutputRows(c) => {
                            *out.entry("output_rows".into()).or_default() += c.value() as u64;
                        }
                        _ => {}
                    }
                }
            }
        }
        for c in p.children() {
            walk(c, out);
        }
    }
    walk(plan, &mut out);
    out
}

pub fn plan_text(plan: &Arc<dyn ExecutionPlan>) -> String {
    datafusion::physical_plan::displayable(plan.as_ref()).indent(false).to_string()
}

pub fn plan_has(plan: &Arc<dyn ExecutionPlan>, name: &str) -> bool {
    if plan.name() == name {
        return true;
    }
    plan.children().iter().any(|c| plan_has(c, name))
}

/// multiset difference report: None when equal
pub fn multiset_diff(got: &[Vec<Cell>], want: &[Vec<Cell>]) -> Option<String> {
    let mut g = got.to_vec();
    let mut w = want.to_vec();
    g.sort();
    w.sort();
    if g == w {
        return None;
    }
    let (mut i, mut j) = (0, 0);
    let mut extra = vec![];
    let mut missing = vec![];
    while i < g.len() || j < w.len() {
        if j >= w.len() || (i < g.len() && g[i] < w[j]) {
            extra.push(show_row(&g[i]));
            i += 1;
        } else if i >= g.len() || w[j] < g[i] {
            missing.push(show_row(&w[j]));
            j += 1;
        } else {
            i += 1;
            j += 1;
        }
    }
    let cut = |v: &Vec<String>| v.iter().take(6).cloned().collect::<Vec<_>>().join(" ");
    Some(format!("got {} rows, expected {}; missing {}: {} ; unexpected {}: {}", g.len(), w.len(), missing.len(), cut(&missing), extra.len(), cut(&extra)))
}

/// is `got` a sub-multiset of `want`?
pub fn sub_multiset(got: &[Vec<Cell>], want: &[Vec<Cell>]) -> Option<String> {
    let mut g = got.to_vec();
    let mut w = want.to_vec();
    g.sort();
    w.sort();
    let mut j = 0;
    for r in &g {
        while j < w.len() && &w[j] < r {
            j += 1;
        }
        if j >= w.len() || &w[j] != r {
            return Some(format!("row {} is returned more often than the reference contains it", show_row(r)));
        }
        j += 1;
    }
    None
}

pub fn sql_str(s: &str) -> String {
    format!("'{}'", s.replace('\'', "''"))
}

pub fn date_sql(days: i32) -> String {
    let d = chrono::NaiveDate::from_ymd_opt(1970, 1, 1).unwrap() + chrono::Duration::days(days as i64);
    format!("DATE '{}'", d.format("%Y-%m-%d"))
}
