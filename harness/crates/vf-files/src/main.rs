mod c24;
mod c44;
mod util;

fn main() {
    vf_kit::dispatch! {
        "c24" => c24::C24,
        "c44" => c44::C44,
    }
}
