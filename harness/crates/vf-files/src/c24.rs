//! C24 — Parquet scans with pruning / pushdown return exactly the matching rows; `file_row_index()`
//! reports each row's position in its file.
//!
//! Domain: 1–3 Parquet files written by the parquet `ArrowWriter` under generated `WriterProperties`
//! (row-group row count 8..200, data page row limit 4..64 with a matching small write batch size,
//! statistics none/chunk/page, statistics + column-index truncation lengths, bloom filters, dictionary,
//! writer version); fixed table schema `fid i32, rowid i64 (= position in file), a i32, b i64, f f64,
//! s utf8, d date32, k i32` with NULL-heavy small-domain values and sorted / clustered / random
//! layouts; a typed predicate grammar (col-lit and col-col comparisons incl. literals of another
//! numeric type and beyond the column's range, IN / NOT IN, LIKE prefix/suffix/underscore,
//! IS [NOT] NULL, BETWEEN, AND/OR/NOT, all also over `file_row_index()`); projections (subsets,
//! reorderings, expressions, `file_row_index()`); ORDER BY / LIMIT / ORDER BY+LIMIT (TopK dynamic
//! filter, sort pushdown with a declared — and verified true — file sort order); reader options
//! `datafusion.execution.parquet.{pruning, enable_page_index, bloom_filter_on_read, pushdown_filters,
//! reorder_filters, force_filter_selections, max_predicate_cache_size, metadata_size_hint,
//! schema_force_view_types, max_in_list_size}`, `execution.{target_partitions, batch_size,
//! collect_statistics, split_file_groups_by_statistics}`, `optimizer.{repartition_file_scans,
//! repartition_file_min_size, enable_sort_pushdown, enable_topk_dynamic_filter_pushdown}`.
//!
//! Oracle (differential): the same SQL (with `file_row_index()` replaced by the stored `rowid`, and
//! without LIMIT) over a `MemTable` holding the same rows. No LIMIT: multiset equality (plus equal
//! ORDER BY key sequence). LIMIT n: exactly min(n, |reference|) rows, a sub-multiset of the
//! reference, and — with ORDER BY — the key sequence equals the reference's first rows (ties at the
//! cut may be resolved either way). When the hidden pair (`rowid`, `file_row_index()`) is selected
//! they must be equal on every returned row.
//!
//! Non-trivial: scan metrics of the executed plan show pruning (row groups by statistics / bloom
//! filter / limit / dynamic filter, file ranges, page-index rows or pages) or rows removed by the
//! pushed-down row filter, and the result is neither empty nor the whole table.
//!
//! Deviations from DESIGN.md: lives in vf-files (not vf-core); own predicate grammar instead of the C22
//! one; `file_row_index()` IS reachable through SQL (scalar UDF rewritten by the Parquet source) and
//! is used as an ordinary pseudo-column. The engine documents that `file_row_index()` errors when it
//! is not pushed into a scan ("source dependent and cannot be evaluated directly") — such cases are
//! discards. NaN and -0.0 are not generated (DESIGN §7.1).
//!
//! Sensitivity probes (one env-gated multi-mutation patch applied with tools/mutrun, each mutation
//! switched on separately with VF_MUT; all caught by `c24 quick`, seed 0):
//! * `reorder_drops_conjunct` — row_filter.rs `build_row_filter`: after `reorder_filters` sorting the last
//!   candidate conjunct is dropped -> VIOLATION after 5 cases (unexpected rows).
//! * `page_off_by_one` — page_filter.rs `prune_pages_in_one_row_group`: the last page of a row group takes
//!   the verdict of the page before it -> VIOLATION after 454 cases (missing rows).
//! * `limit_before_filter` — row_group_filter.rs `prune_by_limit`: every row group counts as fully matched
//!   (LIMIT satisfied from row groups whose rows still have to pass the filter) -> VIOLATION after 33 cases.
//! * `bloom_for_noteq` — pruning_predicate.rs: a `NotIn` literal guarantee is combined like `In` (bloom
//!   filter consulted for `<>` / NOT IN) -> VIOLATION after 92 cases.
//!
//! Seeded defect /verif/seeded/C24-a (`PreparedAccessPlan::reorder_by_statistics` uses the sort permutation
//! — positions among the surviving row groups — as absolute row-group indexes) was first MISSED at quick
//! tier: it needs ORDER BY on a file column + a file with >= 3 row groups of which a leading/middle one is
//! pruned and >= 2 survive + no page-index RowSelection. The old generator rarely produced several row
//! groups per file (row-group size uniform in 8..200 against <= 120 rows) and chose predicate / sort columns
//! independently of the data layout, so statistics pruning of a non-suffix row group under a pushed-down
//! sort had a probability of roughly 0.1 % per case (the region is not hidden by the sparse-page exclusion).
//! General strengthening, no special-casing: row groups mostly 8..40 rows, files mostly in the upper half
//! of the size range, predicate and ORDER BY columns biased (2 in 5) to the column the files are sorted /
//! clustered on, ORDER BY in half of the queries, quick budget 2000. Effect per quick run:
//! `m:row_groups_pruned_statistics` 57 -> ~300, `m:row_groups_pruned_dynamic_filter` 3 -> ~30,
//! `plan:sort_order_for_reorder` ~150; `mutrun seeded/C24-a/patch.diff -- ./check C24 quick` now reports a
//! VIOLATION after 69 cases.
//!
//! Genuine finding (open, known_findings.json `pushdown+mask+predicate-cache+small-batch`, case
//! regressions/C24/c24/sparse-page-mask-topk.json; two more shrunk cases next to it): with
//! `pushdown_filters=true`, a row filter of >= 2 conjuncts (static ones, or a static one plus the TopK
//! dynamic filter) and a batch size smaller than the data pages (e.g. 3 vs 5- or 17-row pages), the scan
//! fails with `Parquet error: Invalid offset in sparse column chunk data: N, no matching page found`
//! (parquet 59.2 push decoder: mask selection strategy + predicate cache over sparsely fetched pages);
//! `force_filter_selections=true` or `max_predicate_cache_size=0` avoid it. The generator continues
//! behind it via `known_signature` (pushdown && !force_filter_selections && cache != 0 && batch_size < 64
//! && a predicate) — that region is counted in `known_excluded`, not explored.
use crate::util::*;
use datafusion::arrow::array::*;
use datafusion::arrow::datatypes::{DataType, Field, Schema, SchemaRef};
use datafusion::arrow::record_batch::RecordBatch;
use datafusion::datasource::MemTable;
use datafusion::datasource::file_format::parquet::ParquetFormat;
use datafusion::datasource::listing::ListingOptions;
use datafusion::parquet::arrow::ArrowWriter;
use datafusion::parquet::basic::Compression;
use datafusion::parquet::file::properties::{EnabledStatistics, WriterProperties, WriterVersion};
use datafusion::prelude::*;
use proptest::prelude::*;
use serde::{Deserialize, Serialize};
use std::sync::Arc;
use vf_kit::engine::*;

pub struct C24;

#[derive(Clone, Debug, Serialize, Deserialize, PartialEq)]
pub struct Row {
    pub a: Option<i32>,
    pub b: Option<i64>,
    /// f = q / 4.0
    pub f: Option<i16>,
    pub s: Option<String>,
    pub d: Option<i32>,
    pub k: Option<i32>,
}

#[derive(Clone, Debug, Serialize, Deserialize)]
pub struct Writer {
    pub rg: usize,
    pub page: usize,
    pub wbatch: usize,
    /// 0 none, 1 chunk, 2 page
    pub stats: u8,
    pub bloom: bool,
    pub dict: bool,
    pub v2: bool,
    pub trunc: Option<usize>,
    /// rows per written input batch
    pub chunk: usize,
}

#[derive(Clone, Debug, Serialize, Deserialize)]
pub struct Opts {
    pub pruning: bool,
    pub page_index: bool,
    pub bloom_read: bool,
    pub pushdown: bool,
    pub reorder: bool,
    pub force_sel: bool,
    pub pred_cache: Option<usize>,
    pub meta_hint: Option<usize>,
    pub view_types: bool,
    pub partitions: usize,
    pub repartition: bool,
    pub repart_min0: bool,
    pub split_stats: bool,
    pub sort_pushdown: bool,
    pub dyn_filter: bool,
    pub batch_size: usize,
    pub collect_stats: bool,
    pub declare_order: bool,
    pub workers: usize,
    pub in_list_max: usize,
}

#[derive(Clone, Debug, Serialize, Deserialize)]
pub enum Layout {
    Random,
    Sorted { col: u8 },
    Clustered { col: u8, run: u8 },
}

#[derive(Clone, Debug, Serialize, Deserialize)]
pub struct Lit {
    pub i: i64,
    pub q: i16,
    pub s: String,
    pub d: i32,
    /// render the "other" literal kind (float for int columns, int for the float column, string for dates)
    pub alt: bool,
}

#[derive(Clone, Debug, Serialize, Deserialize)]
pub enum Pred {
    Cmp { col: u8, op: u8, lit: Lit },
    CmpCol { l: u8, op: u8, r: u8 },
    In { col: u8, lits: Vec<Lit>, neg: bool },
    /// on `s`; kind 0 `p%`, 1 `p_%`, 2 `p` (no wildcard), 3 `%p`
    Like { prefix: String, kind: u8, neg: bool },
    IsNull { col: u8, neg: bool },
    Between { col: u8, lo: Lit, hi: Lit, neg: bool },
    And(Box<Pred>, Box<Pred>),
    Or(Box<Pred>, Box<Pred>),
    Not(Box<Pred>),
}

#[derive(Clone, Debug, Serialize, Deserialize)]
pub enum Proj {
    Col(u8),
    /// cast(a as bigint) + n
    APlus(i8),
    FTimes2,
    UpperS,
    KIsNull,
    CoalesceAK,
    /// file_row_index() + n
    IdxPlus(i8),
}

#[derive(Clone, Debug, Serialize, Deserialize)]
pub struct OrdKey {
    pub col: u8,
    pub desc: bool,
    pub nulls_first: bool,
}

#[derive(Clone, Debug, Serialize, Deserialize)]
pub struct Query {
    pub proj: Vec<Proj>,
    /// additionally select `rowid` and `file_row_index()` and check they agree row by row
    pub check_idx: bool,
    pub pred: Option<Pred>,
    pub order: Vec<OrdKey>,
    pub limit: Option<u32>,
}

#[derive(Clone, Debug, Serialize, Deserialize)]
pub struct Case {
    pub files: Vec<Vec<Row>>,
    pub layout: Layout,
    pub writer: Writer,
    pub opts: Opts,
    pub query: Query,
}

// ---------------------------------------------------------------------------------------------
// columns

#[derive(Clone, Copy, PartialEq, Debug)]
enum Ty {
    I32,
    I64,
    F64,
    Str,
    Date,
}

/// index 8 is the pseudo-column `file_row_index()`
const COLS: [(&str, Ty); 9] = [
    ("fid", Ty::I32),
    ("rowid", Ty::I64),
    ("a", Ty::I32),
    ("b", Ty::I64),
    ("f", Ty::F64),
    ("s", Ty::Str),
    ("d", Ty::Date),
    ("k", Ty::I32),
    ("file_row_index()", Ty::I64),
];
const NUMERIC: [u8; 7] = [0, 1, 2, 3, 4, 7, 8];
const OPS: [&str; 6] = ["=", "<>", "<", "<=", ">", ">="];

fn col_index(c: u8) -> usize {
    (c as usize).min(COLS.len() - 1)
}
fn col_sql(c: u8, mem: bool) -> &'static str {
    let i = col_index(c);
    if i == 8 && mem { "rowid" } else { COLS[i].0 }
}
fn col_ty(c: u8) -> Ty {
    COLS[col_index(c)].1
}
fn numeric_col(c: u8) -> u8 {
    NUMERIC[(c as usize).min(NUMERIC.len() - 1)]
}

fn table_schema() -> SchemaRef {
    Arc::new(Schema::new(vec![
        Field::new("fid", DataType::Int32, false),
        Field::new("rowid", DataType::Int64, false),
        Field::new("a", DataType::Int32, true),
        Field::new("b", DataType::Int64, true),
        Field::new("f", DataType::Float64, true),
        Field::new("s", DataType::Utf8, true),
        Field::new("d", DataType::Date32, true),
        Field::new("k", DataType::Int32, true),
    ]))
}

fn batch_of(fid: usize, start: usize, rows: &[Row]) -> RecordBatch {
    let n = rows.len();
    let cols: Vec<ArrayRef> = vec![
        Arc::new(Int32Array::from(vec![fid as i32; n])),
        Arc::new(Int64Array::from((0..n).map(|i| (start + i) as i64).collect::<Vec<_>>())),
        Arc::new(Int32Array::from(rows.iter().map(|r| r.a).collect::<Vec<_>>())),
        Arc::new(Int64Array::from(rows.iter().map(|r| r.b).collect::<Vec<_>>())),
        Arc::new(Float64Array::from(rows.iter().map(|r| r.f.map(|q| q as f64 / 4.0)).collect::<Vec<_>>())),
        Arc::new(StringArray::from(rows.iter().map(|r| r.s.clone()).collect::<Vec<_>>())),
        Arc::new(Date32Array::from(rows.iter().map(|r| r.d).collect::<Vec<_>>())),
        Arc::new(Int32Array::from(rows.iter().map(|r| r.k).collect::<Vec<_>>())),
    ];
    RecordBatch::try_new(table_schema(), cols).expect("harness: batch")
}

// ---------------------------------------------------------------------------------------------
// rendering

fn float_sql(q: i16) -> String {
    format!("{:?}", q as f64 / 4.0)
}

impl Lit {
    fn sql(&self, ty: Ty) -> String {
        match ty {
            Ty::I32 | Ty::I64 => {
                if self.alt {
                    float_sql(self.q)
                } else {
                    self.i.to_string()
                }
            }
            Ty::F64 => {
                if self.alt {
                    self.i.to_string()
                } else {
                    float_sql(self.q)
                }
            }
            Ty::Str => sql_str(&self.s),
            Ty::Date => {
                if self.alt {
                    let t = date_sql(self.d);
                    t.trim_start_matches("DATE ").to_string()
                } else {
                    date_sql(self.d)
                }
            }
        }
    }
}

impl Pred {
    fn sql(&self, mem: bool) -> String {
        match self {
            Pred::Cmp { col, op, lit } => format!("{} {} {}", col_sql(*col, mem), OPS[(*op as usize).min(5)], lit.sql(col_ty(*col))),
            Pred::CmpCol { l, op, r } => {
                let (l, r) = (numeric_col(*l), numeric_col(*r));
                format!("{} {} {}", col_sql(l, mem), OPS[(*op as usize).min(5)], col_sql(r, mem))
            }
            Pred::In { col, lits, neg } => {
                let ty = col_ty(*col);
                if lits.is_empty() {
                    // SQL has no empty IN list; degrade to IS NULL
                    return format!("{} IS {}NULL", col_sql(*col, mem), if *neg { "NOT " } else { "" });
                }
                format!("{} {}IN ({})", col_sql(*col, mem), if *neg { "NOT " } else { "" }, lits.iter().map(|l| l.sql(ty)).collect::<Vec<_>>().join(", "))
            }
            Pred::Like { prefix, kind, neg } => {
                let pat = match kind {
                    0 => format!("{prefix}%"),
                    1 => format!("{prefix}_%"),
                    2 => prefix.clone(),
                    _ => format!("%{prefix}"),
                };
                format!("s {}LIKE {}", if *neg { "NOT " } else { "" }, sql_str(&pat))
            }
            Pred::IsNull { col, neg } => format!("{} IS {}NULL", col_sql(*col, mem), if *neg { "NOT " } else { "" }),
            Pred::Between { col, lo, hi, neg } => {
                let ty = col_ty(*col);
                format!("{} {}BETWEEN {} AND {}", col_sql(*col, mem), if *neg { "NOT " } else { "" }, lo.sql(ty), hi.sql(ty))
            }
            Pred::And(a, b) => format!("({} AND {})", a.sql(mem), b.sql(mem)),
            Pred::Or(a, b) => format!("({} OR {})", a.sql(mem), b.sql(mem)),
            Pred::Not(a) => format!("(NOT {})", a.sql(mem)),
        }
    }
    fn kinds(&self, out: &mut Vec<&'static str>) {
        match self {
            Pred::Cmp { col, lit, .. } => {
                out.push("p:cmp");
                if lit.alt {
                    out.push("p:cmp-other-type-lit");
                }
                if col_index(*col) == 8 {
                    out.push("p:on-row-index");
                }
            }
            Pred::CmpCol { .. } => out.push("p:cmp-col-col"),
            Pred::In { neg, col, .. } => {
                out.push(if *neg { "p:not-in" } else { "p:in" });
                if col_index(*col) == 8 {
                    out.push("p:on-row-index");
                }
            }
            Pred::Like { neg, .. } => out.push(if *neg { "p:not-like" } else { "p:like" }),
            Pred::IsNull { neg, .. } => out.push(if *neg { "p:is-not-null" } else { "p:is-null" }),
            Pred::Between { neg, .. } => out.push(if *neg { "p:not-between" } else { "p:between" }),
            Pred::And(a, b) => {
                out.push("p:and");
                a.kinds(out);
                b.kinds(out);
            }
            Pred::Or(a, b) => {
                out.push("p:or");
                a.kinds(out);
                b.kinds(out);
            }
            Pred::Not(a) => {
                out.push("p:not");
                a.kinds(out);
            }
        }
    }
}

impl Proj {
    fn sql(&self, mem: bool) -> String {
        match self {
            Proj::Col(c) => col_sql(*c, mem).to_string(),
            Proj::APlus(n) => format!("cast(a as bigint) + {n}"),
            Proj::FTimes2 => "f * 2".into(),
            Proj::UpperS => "upper(s)".into(),
            Proj::KIsNull => "k IS NULL".into(),
            Proj::CoalesceAK => "coalesce(a, k, 0)".into(),
            Proj::IdxPlus(n) => format!("{} + {n}", col_sql(8, mem)),
        }
    }
}

impl Query {
    /// number of leading (visible) projection columns, then [rowid, fri]?, then order keys
    fn sql(&self, mem: bool, with_limit: bool) -> String {
        let mut items: Vec<String> = self.proj.iter().enumerate().map(|(i, p)| format!("{} AS c{i}", p.sql(mem))).collect();
        if self.check_idx {
            items.push("rowid AS x_rid".into());
            items.push(format!("{} AS x_fri", col_sql(8, mem)));
        }
        for (i, k) in self.order.iter().enumerate() {
            items.push(format!("{} AS o{i}", col_sql(k.col, mem)));
        }
        if items.is_empty() {
            items.push("fid AS c0".into());
        }
        let mut q = format!("SELECT {} FROM t", items.join(", "));
        if let Some(p) = &self.pred {
            q.push_str(&format!(" WHERE {}", p.sql(mem)));
        }
        if !self.order.is_empty() {
            let keys: Vec<String> = self
                .order
                .iter()
                .map(|k| format!("{} {} NULLS {}", col_sql(k.col, mem), if k.desc { "DESC" } else { "ASC" }, if k.nulls_first { "FIRST" } else { "LAST" }))
                .collect();
            q.push_str(&format!(" ORDER BY {}", keys.join(", ")));
        }
        if with_limit {
            if let Some(n) = self.limit {
                q.push_str(&format!(" LIMIT {n}"));
            }
        }
        q
    }
}

// ---------------------------------------------------------------------------------------------
// generators

fn s_values() -> Vec<&'static str> {
    vec![
        "", "a", "ab", "abc", "abd", "abcd", "b", "ba", "zz", "é", "éa", "ÿ", "a%", "a_c", "A", "Ab", "ab\u{10FFFF}", "\u{10FFFF}", "\u{10FFFF}\u{10FFFF}", "\u{7f}", "a\u{7f}", "c", "ca", "cb",
        "abababababababababababababababababababababababababababababababababab1", "abababababababababababababababababababababababababababababababababab2", "~", "a~",
    ]
}

fn s_strategy() -> BoxedStrategy<String> {
    prop_oneof![3 => prop::sample::select(s_values()).prop_map(|s| s.to_string()), 1 => "[a-c]{0,4}".prop_map(|s| s)].boxed()
}

fn i_lit_strategy() -> BoxedStrategy<i64> {
    prop_oneof![
        6 => -60i64..60,
        2 => 0i64..400,
        1 => prop::sample::select(vec![
            i32::MAX as i64, i32::MIN as i64, i32::MAX as i64 + 1, i32::MIN as i64 - 1, 1_000_000, -1_000_000,
            (1i64 << 53), (1i64 << 53) + 1, -(1i64 << 53) - 1, i64::MAX, i64::MIN + 1, 0, 1, -1,
        ]),
    ]
    .boxed()
}

fn lit_strategy() -> BoxedStrategy<Lit> {
    (i_lit_strategy(), prop_oneof![4 => -44i16..44, 1 => -400i16..400], s_strategy(), prop_oneof![6 => 17990i32..18070, 1 => Just(0i32), 1 => Just(-1i32)], prop::bool::weighted(0.15))
        .prop_map(|(i, q, s, d, alt)| Lit { i, q, s, d, alt })
        .boxed()
}

fn any_col() -> BoxedStrategy<u8> {
    // data columns more often than fid / rowid / row index
    prop_oneof![1 => Just(0u8), 2 => Just(1u8), 4 => Just(2u8), 3 => Just(3u8), 3 => Just(4u8), 4 => Just(5u8), 3 => Just(6u8), 3 => Just(7u8), 2 => Just(8u8)].boxed()
}

/// column choice biased towards the column the files are sorted / clustered on (`focus`), so that
/// predicates and sort keys correlate with the data layout (that is what makes row groups and pages prunable)
fn col_f(focus: Option<u8>) -> BoxedStrategy<u8> {
    match focus {
        Some(c) => prop_oneof![2 => Just(c), 3 => any_col()].boxed(),
        None => any_col(),
    }
}

fn pred_strategy(focus: Option<u8>) -> BoxedStrategy<Pred> {
    let leaf = prop_oneof![
        6 => (col_f(focus), 0u8..6, lit_strategy()).prop_map(|(col, op, lit)| Pred::Cmp { col, op, lit }),
        1 => (0u8..7, 0u8..6, 0u8..7).prop_map(|(l, op, r)| Pred::CmpCol { l, op, r }),
        2 => (col_f(focus), prop::collection::vec(lit_strategy(), 1..5), any::<bool>()).prop_map(|(col, lits, neg)| Pred::In { col, lits, neg }),
        2 => (s_strategy(), 0u8..4, prop::bool::weighted(0.3)).prop_map(|(prefix, kind, neg)| Pred::Like { prefix, kind, neg }),
        1 => (any_col(), any::<bool>()).prop_map(|(col, neg)| Pred::IsNull { col, neg }),
        2 => (col_f(focus), lit_strategy(), lit_strategy(), prop::bool::weighted(0.25), prop::bool::weighted(0.85)).prop_map(|(col, mut lo, mut hi, neg, ordered)| {
            if ordered {
                // lo <= hi component-wise, so that the range is usually not empty
                if lo.i > hi.i { std::mem::swap(&mut lo.i, &mut hi.i); }
                if lo.q > hi.q { std::mem::swap(&mut lo.q, &mut hi.q); }
                if lo.s.as_bytes() > hi.s.as_bytes() { std::mem::swap(&mut lo.s, &mut hi.s); }
                if lo.d > hi.d { std::mem::swap(&mut lo.d, &mut hi.d); }
            }
            Pred::Between { col, lo, hi, neg }
        }),
    ]
    .boxed();
    let leaf2 = leaf.clone();
    let deep = leaf.prop_recursive(3, 8, 2, |inner| {
        prop_oneof![
            3 => (inner.clone(), inner.clone()).prop_map(|(a, b)| Pred::And(Box::new(a), Box::new(b))),
            2 => (inner.clone(), inner.clone()).prop_map(|(a, b)| Pred::Or(Box::new(a), Box::new(b))),
            1 => inner.prop_map(|a| Pred::Not(Box::new(a))),
        ]
    });
    prop_oneof![2 => leaf2, 3 => deep].boxed()
}

fn proj_strategy() -> BoxedStrategy<Proj> {
    prop_oneof![
        10 => any_col().prop_map(Proj::Col),
        1 => (-3i8..4).prop_map(Proj::APlus),
        1 => Just(Proj::FTimes2),
        1 => Just(Proj::UpperS),
        1 => Just(Proj::KIsNull),
        1 => Just(Proj::CoalesceAK),
        1 => (-3i8..4).prop_map(Proj::IdxPlus),
    ]
    .boxed()
}

fn query_strategy(focus: Option<u8>) -> BoxedStrategy<Query> {
    let order = prop_oneof![
        4 => Just(vec![]),
        4 => prop::collection::vec((col_f(focus), any::<bool>(), any::<bool>()).prop_map(|(col, desc, nulls_first)| OrdKey { col, desc, nulls_first }), 1..3),
    ];
    let limit = prop_oneof![5 => Just(None), 1 => Just(Some(0u32)), 4 => (1u32..40).prop_map(Some), 1 => (40u32..500).prop_map(Some)];
    (prop::collection::vec(proj_strategy(), 0..5), prop::bool::weighted(0.7), prop::option::weighted(0.9, pred_strategy(focus)), order, limit)
        .prop_map(|(proj, check_idx, pred, order, limit)| Query { proj, check_idx, pred, order, limit })
        .boxed()
}

fn row_strategy(nulls: [u8; 6]) -> BoxedStrategy<Row> {
    fn opt<T: std::fmt::Debug + Clone + 'static>(w: u8, s: BoxedStrategy<T>) -> BoxedStrategy<Option<T>> {
        match w {
            0 => s.prop_map(Some).boxed(),
            1 => prop::option::weighted(0.9, s).boxed(),
            2 => prop::option::weighted(0.5, s).boxed(),
            _ => prop::option::weighted(0.03, s).boxed(),
        }
    }
    let a = prop_oneof![12 => -50i32..50, 1 => prop::sample::select(vec![i32::MAX, i32::MIN, 1_000_000, -1_000_000])].boxed();
    let b = prop_oneof![10 => -50i64..50, 2 => 0i64..400, 1 => prop::sample::select(vec![1i64 << 53, (1i64 << 53) + 1, -(1i64 << 53) - 1, i64::MAX, i64::MIN + 1])].boxed();
    let f = prop_oneof![12 => -40i16..40, 1 => -400i16..400].boxed();
    let d = prop_oneof![12 => 18000i32..18060, 1 => Just(0i32)].boxed();
    let k = (0i32..5).boxed();
    (opt(nulls[0], a), opt(nulls[1], b), opt(nulls[2], f), opt(nulls[3], s_strategy()), opt(nulls[4], d), opt(nulls[5], k))
        .prop_map(|(a, b, f, s, d, k)| Row { a, b, f, s, d, k })
        .boxed()
}

/// order of two rows on data column `col` (ASC, NULLS LAST) — the engine's order for these types
fn cmp_on(col: u8, x: &Row, y: &Row) -> std::cmp::Ordering {
    fn o<T: Ord>(a: &Option<T>, b: &Option<T>) -> std::cmp::Ordering {
        match (a, b) {
            (None, None) => std::cmp::Ordering::Equal,
            (None, _) => std::cmp::Ordering::Greater,
            (_, None) => std::cmp::Ordering::Less,
            (Some(a), Some(b)) => a.cmp(b),
        }
    }
    match col {
        2 => o(&x.a, &y.a),
        3 => o(&x.b, &y.b),
        4 => o(&x.f, &y.f),
        5 => o(&x.s.as_ref().map(|s| s.as_bytes().to_vec()), &y.s.as_ref().map(|s| s.as_bytes().to_vec())),
        6 => o(&x.d, &y.d),
        _ => o(&x.k, &y.k),
    }
}

fn lay_out(mut rows: Vec<(Row, u16)>, layout: &Layout) -> Vec<Row> {
    match layout {
        Layout::Random => {}
        Layout::Sorted { col } => rows.sort_by(|x, y| cmp_on(*col, &x.0, &y.0)),
        Layout::Clustered { col, run } => {
            rows.sort_by(|x, y| cmp_on(*col, &x.0, &y.0));
            let run = (*run as usize).max(1);
            let mut chunks: Vec<Vec<(Row, u16)>> = rows.chunks(run).map(|c| c.to_vec()).collect();
            chunks.sort_by_key(|c| c.iter().map(|r| r.1).min().unwrap_or(0));
            rows = chunks.into_iter().flatten().collect();
        }
    }
    rows.into_iter().map(|r| r.0).collect()
}

fn files_strategy(max_rows: usize) -> BoxedStrategy<(Vec<Vec<Row>>, Layout)> {
    let data_col = 2u8..8;
    let layout = prop_oneof![
        2 => Just(Layout::Random),
        4 => data_col.clone().prop_map(|col| Layout::Sorted { col }),
        3 => (data_col, 2u8..40).prop_map(|(col, run)| Layout::Clustered { col, run }),
    ];
    let nulls = prop::array::uniform6(prop_oneof![3 => Just(0u8), 3 => Just(1u8), 2 => Just(2u8), 1 => Just(3u8)]);
    (layout, nulls, 1usize..4)
        .prop_flat_map(move |(layout, nulls, nfiles)| {
            let l2 = layout.clone();
            // mostly files large enough for several row groups, sometimes tiny ones
            let small = prop::collection::vec((row_strategy(nulls), any::<u16>()), 1..=(max_rows / 4).max(1));
            let large = prop::collection::vec((row_strategy(nulls), any::<u16>()), (max_rows / 2).max(1)..=max_rows);
            let file = prop_oneof![1 => small, 3 => large].prop_map(move |rows| lay_out(rows, &l2));
            (prop::collection::vec(file, nfiles..=nfiles), Just(layout))
        })
        .boxed()
}

fn writer_strategy() -> BoxedStrategy<Writer> {
    (
        // mostly small row groups (several per file), sometimes one big one
        prop_oneof![3 => 8usize..=40, 1 => 40usize..=200],
        4usize..=64,
        1usize..=64,
        prop_oneof![1 => Just(0u8), 2 => Just(1u8), 4 => Just(2u8)],
        any::<bool>(),
        any::<bool>(),
        any::<bool>(),
        prop_oneof![3 => Just(None), 1 => Just(Some(1usize)), 1 => Just(Some(2usize)), 1 => Just(Some(3usize)), 1 => Just(Some(64usize))],
        prop_oneof![1 => 1usize..50, 1 => Just(10_000usize)],
    )
        .prop_map(|(rg, page, wbatch, stats, bloom, dict, v2, trunc, chunk)| Writer { rg, page, wbatch: wbatch.min(page), stats, bloom, dict, v2, trunc, chunk })
        .boxed()
}

fn opts_strategy() -> BoxedStrategy<Opts> {
    let on = || prop::bool::weighted(0.85);
    let a = (on(), on(), on(), prop::bool::weighted(0.7), any::<bool>(), any::<bool>(), prop_oneof![2 => Just(None), 1 => Just(Some(0usize)), 1 => Just(Some(200usize)), 1 => Just(Some(1usize << 20))]);
    let b = (
        prop_oneof![2 => Just(None), 1 => Just(Some(8usize)), 1 => Just(Some(9usize)), 1 => Just(Some(100usize)), 1 => Just(Some(4096usize)), 2 => Just(Some(512usize * 1024))],
        any::<bool>(),
        1usize..5,
        any::<bool>(),
        any::<bool>(),
        any::<bool>(),
        on(),
        on(),
    );
    let c = (prop_oneof![1 => Just(1usize), 2 => Just(3usize), 2 => Just(17usize), 2 => Just(100usize), 3 => Just(8192usize)], on(), prop::bool::weighted(0.6), prop_oneof![3 => Just(1usize), 1 => Just(2usize)], prop_oneof![1 => Just(0usize), 1 => Just(2usize), 3 => Just(20usize)]);
    (a, b, c)
        .prop_map(|((pruning, page_index, bloom_read, pushdown, reorder, force_sel, pred_cache), (meta_hint, view_types, partitions, repartition, repart_min0, split_stats, sort_pushdown, dyn_filter), (batch_size, collect_stats, declare_order, workers, in_list_max))| Opts {
            pruning,
            page_index,
            bloom_read,
            pushdown,
            reorder,
            force_sel,
            pred_cache,
            meta_hint,
            view_types,
            partitions,
            repartition,
            repart_min0,
            split_stats,
            sort_pushdown,
            dyn_filter,
            batch_size,
            collect_stats,
            declare_order,
            workers,
            in_list_max,
        })
        .boxed()
}

// ---------------------------------------------------------------------------------------------
// running

fn writer_props(w: &Writer) -> WriterProperties {
    let stats = match w.stats {
        0 => EnabledStatistics::None,
        1 => EnabledStatistics::Chunk,
        _ => EnabledStatistics::Page,
    };
    WriterProperties::builder()
        .set_max_row_group_row_count(Some(w.rg.max(1)))
        .set_data_page_row_count_limit(w.page.max(1))
        .set_write_batch_size(w.wbatch.max(1))
        .set_statistics_enabled(stats)
        .set_bloom_filter_enabled(w.bloom)
        .set_dictionary_enabled(w.dict)
        .set_writer_version(if w.v2 { WriterVersion::PARQUET_2_0 } else { WriterVersion::PARQUET_1_0 })
        .set_statistics_truncate_length(w.trunc.map(|t| t.max(1)))
        .set_column_index_truncate_length(w.trunc.map(|t| t.max(1)))
        .set_compression(Compression::UNCOMPRESSED)
        .build()
}

fn write_file(path: &std::path::Path, fid: usize, rows: &[Row], w: &Writer) -> Result<(), String> {
    let file = std::fs::File::create(path).map_err(|e| e.to_string())?;
    let mut wr = ArrowWriter::try_new(file, table_schema(), Some(writer_props(w))).map_err(|e| e.to_string())?;
    let chunk = w.chunk.max(1);
    let mut start = 0;
    for c in rows.chunks(chunk) {
        wr.write(&batch_of(fid, start, c)).map_err(|e| e.to_string())?;
        start += c.len();
    }
    wr.close().map_err(|e| e.to_string())?;
    Ok(())
}

fn session_options(o: &Opts) -> Vec<(String, String)> {
    let p = "datafusion.execution.parquet.";
    let mut v: Vec<(String, String)> = vec![
        (format!("{p}pruning"), o.pruning.to_string()),
        (format!("{p}enable_page_index"), o.page_index.to_string()),
        (format!("{p}bloom_filter_on_read"), o.bloom_read.to_string()),
        (format!("{p}pushdown_filters"), o.pushdown.to_string()),
        (format!("{p}reorder_filters"), o.reorder.to_string()),
        (format!("{p}force_filter_selections"), o.force_sel.to_string()),
        (format!("{p}schema_force_view_types"), o.view_types.to_string()),
        (format!("{p}max_in_list_size"), o.in_list_max.to_string()),
        ("datafusion.execution.target_partitions".into(), o.partitions.max(1).to_string()),
        ("datafusion.execution.batch_size".into(), o.batch_size.max(1).to_string()),
        ("datafusion.execution.collect_statistics".into(), o.collect_stats.to_string()),
        ("datafusion.execution.split_file_groups_by_statistics".into(), o.split_stats.to_string()),
        ("datafusion.optimizer.repartition_file_scans".into(), o.repartition.to_string()),
        ("datafusion.optimizer.enable_sort_pushdown".into(), o.sort_pushdown.to_string()),
        ("datafusion.optimizer.enable_topk_dynamic_filter_pushdown".into(), o.dyn_filter.to_string()),
    ];
    if o.repart_min0 {
        v.push(("datafusion.optimizer.repartition_file_min_size".into(), "1".into()));
    }
    if let Some(c) = o.pred_cache {
        v.push((format!("{p}max_predicate_cache_size"), c.to_string()));
    }
    if let Some(h) = o.meta_hint {
        v.push((format!("{p}metadata_size_hint"), h.to_string()));
    }
    v
}

/// the data column every file is sorted on (ASC NULLS LAST), verified on the rows themselves
fn verified_sort_col(case: &Case) -> Option<u8> {
    let Layout::Sorted { col } = case.layout else { return None };
    if !(2..8).contains(&col) {
        return None;
    }
    for f in &case.files {
        if f.windows(2).any(|w| cmp_on(col, &w[0], &w[1]) == std::cmp::Ordering::Greater) {
            return None;
        }
    }
    Some(col)
}

struct Done {
    got: RunOut,
    want: RunOut,
    sql: String,
    declared: bool,
}

enum Fail {
    Discard(String),
    Violation(String),
    Harness(String),
}

async fn execute(case: &Case, dir: &std::path::Path) -> Result<Done, Fail> {
    let schema = table_schema();
    // reference: MemTable, one partition per file
    let mem_ctx = new_ctx(&[("datafusion.execution.target_partitions".to_string(), "1".to_string())]);
    let parts: Vec<Vec<RecordBatch>> = case.files.iter().enumerate().map(|(i, rows)| vec![batch_of(i, 0, rows)]).collect();
    let mem = MemTable::try_new(schema.clone(), parts).map_err(|e| Fail::Harness(format!("memtable: {e}")))?;
    mem_ctx.register_table("t", Arc::new(mem)).map_err(|e| Fail::Harness(format!("register mem: {e}")))?;
    let ref_sql = case.query.sql(true, false);
    let want = match run_sql(&mem_ctx, &ref_sql).await {
        Ok(o) => o,
        Err(RunErr::Df(e)) => return Err(Fail::Discard(format!("reference query fails: {}", truncate(&e.to_string(), 80)))),
        Err(RunErr::Harness(h)) => return Err(Fail::Harness(h)),
    };

    // system under test: listing table over the written files
    let mut cfg = new_cfg(&session_options(&case.opts));
    if case.opts.meta_hint.is_none() {
        cfg.options_mut().execution.parquet.metadata_size_hint = None;
    }
    let ctx = SessionContext::new_with_config(cfg);
    let state = ctx.state();
    let format = ParquetFormat::new().with_options(state.default_table_options().parquet.clone());
    let mut lo = ListingOptions::new(Arc::new(format)).with_file_extension(".parquet");
    let mut declared = false;
    if case.opts.declare_order {
        if let Some(c) = verified_sort_col(case) {
            lo = lo.with_file_sort_order(vec![vec![col(COLS[c as usize].0).sort(true, false)]]);
            declared = true;
        }
    }
    let url = format!("{}/", dir.display());
    if let Err(e) = ctx.register_listing_table("t", &url, lo, None, None).await {
        return Err(Fail::Violation(format!("registering the listing table failed: {e}")));
    }
    let sql = case.query.sql(false, true);
    let got = match run_sql(&ctx, &sql).await {
        Ok(o) => o,
        Err(RunErr::Df(e)) => {
            let text = e.to_string();
            if text.contains("file_row_index() is source dependent and cannot be evaluated directly") {
                return Err(Fail::Discard("file_row_index() not pushed into the scan (documented error)".into()));
            }
            if is_clean_reject(&e) {
                return Err(Fail::Discard(format!("engine rejects: {}", truncate(&text, 80))));
            }
            return Err(Fail::Violation(format!("query over Parquet fails while the reference succeeds: {text}\n  sql: {sql}")));
        }
        Err(RunErr::Harness(h)) => return Err(Fail::Harness(h)),
    };
    Ok(Done { got, want, sql, declared })
}

fn compare(case: &Case, d: &Done) -> Result<(), String> {
    let q = &case.query;
    let (got, want) = (&d.got.rows, &d.want.rows);
    // result schemas agree up to string representation
    let gt: Vec<String> = d.got.schema.fields().iter().map(|f| norm_type(f.data_type())).collect();
    let wt: Vec<String> = d.want.schema.fields().iter().map(|f| norm_type(f.data_type())).collect();
    if gt != wt {
        return Err(format!("result types differ: parquet {gt:?} vs reference {wt:?}"));
    }
    let width = got.first().map(|r| r.len()).unwrap_or(0);
    let nkeys = q.order.len();
    if q.check_idx {
        let base = q.proj.len();
        for r in got {
            if r[base] != r[base + 1] {
                return Err(format!("file_row_index() = {} on a row whose stored rowid is {}: {}", r[base + 1].show(), r[base].show(), show_row(r)));
            }
        }
    }
    let expect_len = match q.limit {
        Some(n) => (n as usize).min(want.len()),
        None => want.len(),
    };
    if got.len() != expect_len {
        let diff = multiset_diff(got, want).unwrap_or_default();
        return Err(format!("returned {} rows, expected {} (reference has {} rows before LIMIT {:?}); {}", got.len(), expect_len, want.len(), q.limit, diff));
    }
    if nkeys > 0 && !got.is_empty() {
        for (i, r) in got.iter().enumerate() {
            let gk = &r[width - nkeys..];
            let wk = &want[i][width - nkeys..];
            if gk != wk {
                return Err(format!("ORDER BY keys at position {i}: got {} but the reference order has {}", show_row(gk), show_row(wk)));
            }
        }
    }
    if q.limit.is_some() {
        if let Some(m) = sub_multiset(got, want) {
            return Err(format!("LIMIT result is not a subset of the matching rows: {m}"));
        }
    } else if let Some(m) = multiset_diff(got, want) {
        return Err(m);
    }
    Ok(())
}

impl Property for C24 {
    type Case = Case;
    fn id(&self) -> &'static str {
        "C24"
    }
    fn sub(&self) -> &'static str {
        "c24"
    }
    fn strategy(&self, tier: Tier) -> BoxedStrategy<Case> {
        let max_rows = tier.pick(120, 400);
        (files_strategy(max_rows), writer_strategy(), opts_strategy())
            .prop_flat_map(|((files, layout), writer, opts)| {
                let focus = match layout {
                    Layout::Sorted { col } | Layout::Clustered { col, .. } => Some(col),
                    Layout::Random => None,
                };
                (Just(files), Just(layout), Just(writer), Just(opts), query_strategy(focus))
            })
            .prop_map(|(files, layout, writer, opts, query)| Case { files, layout, writer, opts, query })
            .boxed()
    }
    fn budget(&self, tier: Tier) -> Budget {
        Budget::new(tier.pick(2_000, 30_000), tier.pick(8, 16)).min_nontrivial(tier.pick(300, 5000)).case_timeout(300)
    }
    fn rule(&self) -> String {
        "1-3 Parquet files (rowid = position in file) written under generated WriterProperties, sorted/clustered/random NULL-heavy data; \
         typed predicate grammar + projections + ORDER BY/LIMIT rendered to SQL; generated reader/session options; compared with the same SQL over a MemTable. \
         non-trivial = scan metrics show row groups / pages / file ranges pruned or rows removed by the pushed-down filter, and the result is neither empty nor the whole table; distinct by case JSON"
            .into()
    }
    fn assumptions(&self) -> Vec<String> {
        vec![
            "DataFusion's evaluation of the same SQL over a MemTable (filter after a full scan) is the reference; errors shared by both paths are out of scope".into(),
            "the parquet ArrowWriter writes correct statistics, page indexes and bloom filters for the data".into(),
            "NaN and -0.0 are not generated".into(),
        ]
    }
    fn known_signature(&self, case: &Case) -> Option<String> {
        // open finding "sparse-page-mask" (see known_findings.json): a pushed-down row filter evaluated
        // with the mask selection strategy and the predicate cache while batches are smaller than the pages
        let o = &case.opts;
        if o.pushdown && !o.force_sel && o.pred_cache != Some(0) && o.batch_size < 64 && case.query.pred.is_some() {
            return Some("pushdown+mask+predicate-cache+small-batch".into());
        }
        None
    }
    fn run(&self, case: &Case) -> CaseResult {
        if case.files.is_empty() || case.files.len() > 8 {
            return CaseResult::discard("outside domain: file count");
        }
        let dir = match tempfile::tempdir() {
            Ok(d) => d,
            Err(e) => return CaseResult::inconclusive(format!("tempdir: {e}")),
        };
        for (i, rows) in case.files.iter().enumerate() {
            if let Err(e) = write_file(&dir.path().join(format!("f{i}.parquet")), i, rows, &case.writer) {
                return CaseResult::inconclusive(format!("writing parquet failed: {e}"));
            }
        }
        let res = block_on_timeout(case.opts.workers, 60, execute(case, dir.path()));
        let total_rows: usize = case.files.iter().map(|f| f.len()).sum();
        let mut labels: Vec<String> = vec![];
        labels.push(format!("files={}", case.files.len()));
        labels.push(match case.layout {
            Layout::Random => "layout:random".into(),
            Layout::Sorted { .. } => "layout:sorted".into(),
            Layout::Clustered { .. } => "layout:clustered".into(),
        });
        labels.push(format!("stats:{}", ["none", "chunk", "page"][(case.writer.stats as usize).min(2)]));
        if case.writer.bloom {
            labels.push("w:bloom".into());
        }
        if case.writer.dict {
            labels.push("w:dict".into());
        }
        if case.writer.trunc.map(|t| t < 64).unwrap_or(false) {
            labels.push("w:short-truncation".into());
        }
        let o = &case.opts;
        for (on, name) in [
            (o.pushdown, "o:pushdown_filters"),
            (o.pushdown && o.reorder, "o:reorder_filters"),
            (o.pushdown && o.force_sel, "o:force_filter_selections"),
            (!o.pruning, "o:pruning-off"),
            (!o.page_index, "o:page-index-off"),
            (!o.bloom_read, "o:bloom-read-off"),
            (o.view_types, "o:view-types"),
            (o.partitions > 1, "o:partitions>1"),
            (o.repartition && o.repart_min0, "o:repartition-scans"),
            (o.split_stats, "o:split-by-stats"),
            (o.workers > 1, "o:multi-thread"),
            (o.batch_size < 100, "o:small-batch"),
            (o.meta_hint.map(|h| h < 200).unwrap_or(false), "o:tiny-metadata-hint"),
            (o.pred_cache == Some(0), "o:no-predicate-cache"),
        ] {
            if on {
                labels.push(name.into());
            }
        }
        let q = &case.query;
        if let Some(p) = &q.pred {
            let mut ks = vec![];
            p.kinds(&mut ks);
            ks.sort();
            ks.dedup();
            labels.extend(ks.into_iter().map(|s| s.to_string()));
        } else {
            labels.push("no-predicate".into());
        }
        match (q.order.is_empty(), q.limit) {
            (true, None) => {}
            (true, Some(_)) => labels.push("q:limit".into()),
            (false, None) => labels.push("q:order-by".into()),
            (false, Some(_)) => labels.push("q:order-by-limit".into()),
        }
        if q.check_idx || q.proj.iter().any(|p| matches!(p, Proj::Col(8) | Proj::IdxPlus(_))) {
            labels.push("q:file_row_index".into());
        }
        if q.proj.iter().any(|p| !matches!(p, Proj::Col(_))) {
            labels.push("q:proj-expr".into());
        }
        let done = match res {
            Timed::TimedOut => return CaseResult::inconclusive("timeout (60 s)").labels(labels),
            Timed::Done(Err(Fail::Discard(why))) => return CaseResult::discard(why).labels(labels),
            Timed::Done(Err(Fail::Harness(h))) => return CaseResult::discard(format!("harness limitation: {h}")).labels(labels),
            Timed::Done(Err(Fail::Violation(m))) => return CaseResult::violation(m).labels(labels),
            Timed::Done(Ok(d)) => d,
        };
        if done.declared {
            labels.push("o:declared-file-order".into());
        }
        let m = scan_metrics(&done.got.plan);
        let mut pruned_any = false;
        for name in [
            "row_groups_pruned_statistics",
            "row_groups_pruned_bloom_filter",
            "limit_pruned_row_groups",
            "row_groups_pruned_dynamic_filter",
            "files_ranges_pruned_statistics",
            "page_index_rows_pruned",
            "page_index_pages_pruned",
            "pushdown_rows_pruned",
        ] {
            if m.get(name).copied().unwrap_or(0) > 0 {
                pruned_any = true;
                labels.push(format!("m:{name}"));
            }
        }
        if m.get("predicate_evaluation_errors").copied().unwrap_or(0) > 0 {
            labels.push("m:predicate_evaluation_errors".into());
        }
        if plan_has(&done.got.plan, "FilterExec") {
            labels.push("plan:FilterExec".into());
        }
        if plan_has(&done.got.plan, "SortExec") {
            labels.push("plan:SortExec".into());
        }
        if plan_text(&done.got.plan).contains("reverse_row_groups=true") {
            labels.push("plan:reverse_row_groups".into());
        }
        if plan_text(&done.got.plan).contains("sort_order_for_reorder") {
            labels.push("plan:sort_order_for_reorder".into());
        }
        if plan_text(&done.got.plan).contains("DynamicFilter") {
            labels.push("plan:dynamic-filter".into());
        }
        let nres = done.got.rows.len();
        let nref = done.want.rows.len();
        labels.push(if nref == 0 { "ref:empty" } else if nref == total_rows { "ref:all-rows" } else { "ref:some-rows" }.to_string());
        let nt = pruned_any && nres > 0 && nref < total_rows;
        match compare(case, &done) {
            Ok(()) => CaseResult::pass().nontrivial(nt).labels(labels),
            Err(msg) => CaseResult::violation(format!(
                "{msg}\n  sql: {}\n  options: {:?}\n  writer: {:?}\n  metrics: {:?}\n  plan:\n{}",
                done.sql,
                case.opts,
                case.writer,
                m,
                plan_text(&done.got.plan)
            ))
            .nontrivial(nt)
            .labels(labels),
        }
    }
}
