//! C32 — scalar function results do not depend on argument representation.
//!
//! Domain: every `ScalarUDF` of `datafusion_functions::all_default_functions()` and
//! `datafusion_functions_nested::all_default_nested_functions()`, minus `Volatility::Volatile` functions and an
//! explicit deny-list of functions that inspect physical types by design (see `DENY`; it is printed in the
//! evidence through `assumptions()`). Argument type vectors per function: the signature's example types plus
//! products of a type pool, pushed through the planner's coercion (`fields_with_udf`) and kept when the
//! coerced vector is a fixpoint (the planner would insert no cast). Values come from per-type pools; string /
//! integer positions of format-taking functions draw from a dictionary of well-known literals (date parts,
//! strftime formats, regexes, flags, encodings, digest names, time zones, date strings, small counts).
//!
//! For one case (function, logical argument types, 1-24 rows, some arguments constant) the function is
//! invoked through `ScalarUDF::invoke_with_args` exactly as `ScalarFunctionExpr::evaluate` does (return
//! field from `return_field_from_args` with the literal arguments the planner would see) in these
//! representations:
//!   baseline  every argument an array of its logical type;
//!   scalars   all / each single / the generated subset of constant arguments as `ColumnarValue::Scalar`;
//!   strings   Utf8 / LargeUtf8 / Utf8View for all string arguments and a generated per-argument mix,
//!             Binary / LargeBinary / BinaryView likewise — only when the coercion of the new vector is the
//!             identity (the function natively accepts that encoding);
//!   dict      each argument (and all) dictionary-encoded (Int32 or Int8 keys) — same acceptance rule;
//!   sliced    arrays sliced out of larger arrays (non-zero offset, trailing data);
//!   split     the batch evaluated in 1-row pieces and in k-row pieces.
//! Oracle: (a) whenever baseline and an alternative both succeed their per-row values are equal (canonical
//! rendering: strings as strings across encodings, dictionaries resolved, floats bitwise modulo NaN
//! payload and the sign of zero); (b) every successful evaluation returns one value per row (array of `number_rows`, or a scalar,
//! or a 1-row array when all arguments are scalars — the forms `ScalarFunctionExpr` accepts) and the type
//! promised by `return_field_from_args`; (c) if every row evaluates successfully alone, the whole batch
//! evaluates successfully with the same per-row values.
//!
//! Not demanded (soundness): an error in one representation and success in another (functions may accept a
//! constant-only argument only as a scalar); agreement of result *encodings*; anything about panics other
//! than through (c) — a panic is recorded as a failed evaluation and labelled; `NotImplemented` is a
//! clean rejection, also under (c).
//!
//! Deviations from DESIGN.md: lives in vf-fn; Spark functions are out of scope of this crate; type vectors
//! of arity >= 3 come from example types, diagonals and a reduced pool (not the full product);
//! `range`/`generate_series` only with integer arguments (temporal ranges with generated steps explode).
//!
//! Signatures: a failing case is identified by `<function>:<kind>` (kind = scalars | encoding | dict | sliced |
//! split-rows | split-k | rows-ok-batch-fails | contract); `known_signature` evaluates the case to obtain it
//! (result cached for `run`), so an open entry of /verif/known_findings.json excludes exactly the cases of that
//! function that fail in that way. 13 genuine findings recorded on the unchanged tree (see the final report /
//! known_findings.json: make_array / array_append / array_prepend over Null-typed columns return 1 row;
//! find_in_set LargeUtf8 scalars return Int32 for a promised Int64; array_has_any / array_has_all / map /
//! array_concat NULL handling differs between arrays, scalars and 1-row batches; to_char(Duration, fmt);
//! regexp_count compiles an invalid pattern only in multi-row batches;
//! array_concat result type).
//!
//! Sensitivity probes (tools/mkpatch + tools/mutrun, `./check C32 quick`):
//!  Q1 unicode/character_length.rs, Utf8View branch counts bytes instead of characters → VIOLATION after 585
//!     cases: "character_length(Utf8): encoding=view: row 0 differs: reference = 1, view = 2; arguments: [\"é\"]".
//!  Q2 string/repeat.rs scalar/scalar fast path uses `max(n, 1)` as the count → VIOLATION after 8056 cases:
//!     "repeat(Utf8,I64): scalars=all-constant: row 0 differs: reference (all arrays) = \"\", scalars = \" \"; arguments [\" \", 0]".
use crate::vals::*;
use arrow::array::{Array, ArrayRef};
use arrow::datatypes::{DataType, Field, FieldRef};
use datafusion_common::config::ConfigOptions;
use datafusion_common::{DataFusionError, ScalarValue};
use datafusion_expr::type_coercion::functions::fields_with_udf;
use datafusion_expr::{ColumnarValue, ReturnFieldArgs, ScalarFunctionArgs, ScalarUDF, TypeSignature, Volatility};
use proptest::prelude::*;
use serde::{Deserialize, Serialize};
use serde_json::{Value, json};
use std::collections::BTreeMap;
use std::panic::{AssertUnwindSafe, catch_unwind};
use std::sync::{Arc, Mutex, OnceLock};
use vf_kit::engine::*;

pub struct C32;

/// functions that inspect the physical representation of their arguments by design
pub const DENY: &[(&str, &str)] = &[
    ("arrow_typeof", "returns the physical type name"),
    ("arrow_cast", "target type is a physical type name"),
    ("arrow_try_cast", "target type is a physical type name"),
    ("arrow_metadata", "reports field metadata"),
    ("arrow_field", "reports the physical field"),
    ("version", "build constant, no arguments"),
    ("get_field", "resolves dictionary / map / struct layouts by physical type"),
    ("cast_to_type", "result type is the physical type of the reference argument"),
    ("try_cast_to_type", "result type is the physical type of the reference argument"),
    ("union_extract", "union arguments are not generated"),
    ("union_tag", "union arguments are not generated"),
];

/// functions that cannot be invoked directly (the planner replaces them before execution)
pub const PLANNER_ONLY: &[(&str, &str)] = &[
    ("now", "simplified to a literal at planning time"),
    ("current_date", "simplified to a literal at planning time"),
    ("current_time", "simplified to a literal at planning time"),
    ("coalesce", "simplified to CASE at planning time"),
    ("nvl2", "simplified to CASE at planning time"),
    ("nvl", "delegates to coalesce: simplified to CASE at planning time"),
];

#[derive(Clone, Debug, Serialize, Deserialize)]
pub struct Alt {
    /// per argument: 0 keep, 1 Utf8/Binary, 2 Large*, 3 *View (only string / binary arguments react)
    pub enc: Vec<u8>,
    /// per argument: pass as scalar in the "subset" representation (constant arguments only)
    pub scalar_mask: Vec<bool>,
    pub dict_small_keys: bool,
    pub pad_front: u8,
    pub pad_back: u8,
    pub split_k: u8,
}

#[derive(Clone, Debug, Serialize, Deserialize)]
pub struct Case {
    pub func: String,
    pub types: Vec<Ty>,
    /// per argument: one value per row
    pub cols: Vec<Vec<V>>,
    pub rows: usize,
    pub alt: Alt,
}

// ---------------------------------------------------------------------------------------------
// catalog

pub struct FnInfo {
    pub name: String,
    pub udf: Arc<ScalarUDF>,
    pub vectors: Vec<Vec<Ty>>,
    pub candidates: usize,
}

fn full_pool() -> Vec<Ty> {
    let l = |t: Ty| Ty::List(Box::new(t));
    vec![
        Ty::Null,
        Ty::Bool,
        Ty::I8,
        Ty::I16,
        Ty::I32,
        Ty::I64,
        Ty::U8,
        Ty::U16,
        Ty::U32,
        Ty::U64,
        Ty::F32,
        Ty::F64,
        Ty::Dec(10, 2),
        Ty::Dec(38, 10),
        Ty::Utf8,
        Ty::LargeUtf8,
        Ty::Utf8View,
        Ty::Binary,
        Ty::LargeBinary,
        Ty::BinaryView,
        Ty::Date32,
        Ty::Date64,
        Ty::Time64Ns,
        Ty::Ts(3, None),
        Ty::Ts(1, None),
        Ty::Ts(0, None),
        Ty::Ts(3, Some("+01:00".into())),
        Ty::Ts(2, Some("America/New_York".into())),
        Ty::Ts(1, Some("UTC".into())),
        Ty::Ts(0, Some("Asia/Tokyo".into())),
        Ty::Ts(2, None),
        Ty::Dec(5, 0),
        Ty::Dec(20, 18),
        Ty::Dec256(40, 5),
        Ty::FixedBin(4),
        Ty::Dict(true, Box::new(Ty::I64)),
        Ty::Dur(3),
        Ty::IntervalYM,
        Ty::IntervalDT,
        Ty::IntervalMDN,
        l(Ty::I64),
        l(Ty::Utf8),
        l(Ty::F64),
        l(l(Ty::I64)),
        Ty::LargeList(Box::new(Ty::I64)),
        Ty::FixedList(Box::new(Ty::I64), 3),
        Ty::Struct(vec![("a".into(), Ty::I64), ("b".into(), Ty::Utf8)]),
        Ty::Map(Box::new(Ty::Utf8), Box::new(Ty::I64)),
        Ty::Dict(false, Box::new(Ty::Utf8)),
    ]
}

fn reduced_pool() -> Vec<Ty> {
    let l = |t: Ty| Ty::List(Box::new(t));
    vec![Ty::I64, Ty::I32, Ty::F64, Ty::Utf8, Ty::Utf8View, Ty::LargeUtf8, Ty::Bool, Ty::Ts(3, None), Ty::Ts(2, Some("America/New_York".into())), Ty::Dec(10, 2), Ty::Date32, Ty::IntervalMDN, l(Ty::I64), l(Ty::Utf8), Ty::Binary, Ty::Null]
}

fn arities(sig: &TypeSignature, out: &mut Vec<usize>) {
    match sig {
        TypeSignature::Exact(v) => out.push(v.len()),
        TypeSignature::Uniform(n, _) | TypeSignature::Numeric(n) | TypeSignature::String(n) | TypeSignature::Comparable(n) | TypeSignature::Any(n) => out.push(*n),
        TypeSignature::Coercible(v) => out.push(v.len()),
        TypeSignature::Nullary => out.push(0),
        TypeSignature::Variadic(_) | TypeSignature::VariadicAny => out.extend([1, 2, 3]),
        TypeSignature::UserDefined => out.extend([0, 1, 2, 3, 4]),
        TypeSignature::OneOf(sigs) => {
            for s in sigs {
                arities(s, out)
            }
        }
        TypeSignature::ArraySignature(a) => {
            use datafusion_expr_common::signature::ArrayFunctionSignature as A;
            match a {
                A::Array { arguments, .. } => out.push(arguments.len()),
                A::RecursiveArray | A::MapArray => out.push(1),
            }
        }
    }
}

fn fields_of(types: &[Ty]) -> Vec<FieldRef> {
    types.iter().enumerate().map(|(i, t)| Arc::new(Field::new(format!("a{i}"), t.dt(), true))).collect()
}

/// coercion of `types` is the identity
fn is_fixpoint(udf: &ScalarUDF, types: &[Ty]) -> bool {
    if types.is_empty() {
        return udf.signature().type_signature.supports_zero_argument() || matches!(udf.signature().type_signature, TypeSignature::UserDefined | TypeSignature::VariadicAny);
    }
    match fields_with_udf(&fields_of(types), udf) {
        Ok(f) => f.len() == types.len() && f.iter().zip(types.iter()).all(|(f, t)| f.data_type() == &t.dt()),
        Err(_) => false,
    }
}

fn coerce(udf: &ScalarUDF, cand: &[Ty]) -> Option<Vec<Ty>> {
    if cand.is_empty() {
        return if udf.signature().type_signature.supports_zero_argument() { Some(vec![]) } else { None };
    }
    let co = fields_with_udf(&fields_of(cand), udf).ok()?;
    let tv = co.iter().map(|f| Ty::from_dt_exact(f.data_type())).collect::<Option<Vec<Ty>>>()?;
    if is_fixpoint(udf, &tv) { Some(tv) } else { None }
}

fn int_only(name: &str) -> bool {
    matches!(name, "range" | "generate_series")
}

/// Over-permissive (variadic-any / user-defined) signatures: keep the type vectors the implementation can
/// possibly evaluate, so that cases are not wasted on clean rejections.
fn vector_makes_sense(name: &str, tv: &[Ty]) -> bool {
    match name {
        "to_timestamp" | "to_timestamp_seconds" | "to_timestamp_millis" | "to_timestamp_micros" | "to_timestamp_nanos" | "to_date" | "to_unixtime" | "to_time" => tv.len() <= 1 || tv.iter().all(|t| t.is_string()),
        "map" => tv.len() == 2 && tv.iter().all(|t| matches!(t, Ty::List(_) | Ty::LargeList(_) | Ty::FixedList(_, _))),
        "named_struct" => tv.len() % 2 == 0 && tv.iter().step_by(2).all(|t| *t == Ty::Utf8),
        "with_metadata" => tv.len() % 2 == 1 && tv.len() >= 3 && tv[1..].iter().all(|t| *t == Ty::Utf8),
        "arrays_zip" => tv.iter().all(|t| matches!(t, Ty::List(_) | Ty::LargeList(_) | Ty::FixedList(_, _) | Ty::Null)),
        _ => true,
    }
}

fn catalog() -> &'static Vec<FnInfo> {
    static CAT: OnceLock<Vec<FnInfo>> = OnceLock::new();
    CAT.get_or_init(|| {
        let pool = full_pool();
        let small = reduced_pool();
        let mut fns: Vec<Arc<ScalarUDF>> = datafusion_functions::all_default_functions();
        fns.extend(datafusion_functions_nested::all_default_nested_functions());
        fns.sort_by(|a, b| a.name().cmp(b.name()));
        fns.dedup_by(|a, b| a.name() == b.name());
        let mut out = vec![];
        for udf in fns {
            let name = udf.name().to_string();
            if udf.signature().volatility == Volatility::Volatile || DENY.iter().any(|(d, _)| *d == name) {
                continue;
            }
            let mut ar = vec![];
            arities(&udf.signature().type_signature, &mut ar);
            ar.sort();
            ar.dedup();
            let mut cands: Vec<Vec<Ty>> = vec![];
            for ex in udf.signature().type_signature.get_example_types() {
                if let Some(v) = ex.iter().map(Ty::from_dt).collect::<Option<Vec<Ty>>>() {
                    cands.push(v);
                }
            }
            for n in &ar {
                match *n {
                    0 => cands.push(vec![]),
                    1 => cands.extend(pool.iter().map(|t| vec![t.clone()])),
                    2 => {
                        for a in &pool {
                            for b in &pool {
                                cands.push(vec![a.clone(), b.clone()]);
                            }
                        }
                    }
                    3 => {
                        for a in &pool {
                            cands.push(vec![a.clone(); 3]);
                        }
                        for a in &small {
                            for b in &small {
                                for c in &small {
                                    cands.push(vec![a.clone(), b.clone(), c.clone()]);
                                }
                            }
                        }
                    }
                    n => {
                        for a in &pool {
                            cands.push(vec![a.clone(); n]);
                        }
                    }
                }
            }
            let candidates = cands.len();
            let mut vectors: Vec<Vec<Ty>> = vec![];
            let mut seen = std::collections::BTreeSet::new();
            for c in cands {
                if let Some(tv) = coerce(&udf, &c) {
                    if (int_only(&name) && !tv.iter().all(|t| t.is_int())) || !vector_makes_sense(&name, &tv) {
                        continue;
                    }
                    if seen.insert(tv.clone()) {
                        vectors.push(tv);
                    }
                }
            }
            // arity 4 and 5: extend accepted vectors of the previous arity by the reduced pool
            for n in ar.iter().filter(|n| **n >= 4) {
                let prev: Vec<Vec<Ty>> = vectors.iter().filter(|v| v.len() == n - 1).take(80).cloned().collect();
                for p in prev {
                    for t in &small {
                        let mut c = p.clone();
                        c.push(t.clone());
                        if let Some(tv) = coerce(&udf, &c) {
                            if seen.insert(tv.clone()) {
                                vectors.push(tv);
                            }
                        }
                    }
                }
            }
            vectors.sort();
            out.push(FnInfo { name, udf, vectors, candidates });
        }
        out
    })
}

fn find_fn(name: &str) -> Option<&'static FnInfo> {
    catalog().iter().find(|f| f.name == name)
}

// ---------------------------------------------------------------------------------------------
// value hints: the dictionary of well-known literals

const DATE_PARTS: &[&str] = &["year", "month", "day", "hour", "minute", "second", "millisecond", "microsecond", "nanosecond", "week", "dow", "doy", "quarter", "epoch", "isodow", "YEAR", "decade", "century"];
const STRFTIME: &[&str] = &["%Y-%m-%d", "%H:%M:%S", "%Y-%m-%dT%H:%M:%S", "%Y-%m-%d %H:%M:%S%.f", "%d/%m/%Y", "%Y%m%d", "%+", "%s", "%Y-%m-%dT%H:%M:%S%z", "%B %d, %Y", "%j", "%A", "%Y-%m-%d %H:%M:%S%.3f %Z"];
const REGEXES: &[&str] = &["a", "a+", "^a", "b$", "[a-c]+", "(a)(b)?", "\\d+", "\\s", ".", ".*", "^$", "(?i)ABC", "[", "a|b", "(\\w+) (\\w+)", "é", "^.{2}", "x*"];
const REGEX_FLAGS: &[&str] = &["i", "g", "m", "s", "gi", "", "x"];
const ENCODINGS: &[&str] = &["base64", "hex", "base64pad", "BASE64", "utf8"];
const DIGESTS: &[&str] = &["md5", "sha224", "sha256", "sha384", "sha512", "blake2s", "blake2b", "blake3", "sha1"];
const TZ_NAMES: &[&str] = &["UTC", "+01:00", "-05:30", "America/New_York", "Europe/Brussels", "Asia/Tokyo", "Z", "nowhere/land"];
const NUM_STRINGS: &[&str] = &["0", "1", "-1", "42", "3.14", "-0.5", "1e3", "ff", "7fffffff", " 12 ", "+5", "1_000", "NaN", "inf", "0x1f", "12abc"];
const SEPARATORS: &[&str] = &[",", " ", "", "-", "ab", ", ", "é"];
const ARRAY_STRINGS: &[&str] = &["a,b,c", "1,2,3", "a b c", "", "abc", ",a,,b,", "x"];

#[derive(Clone, Copy, Debug, PartialEq)]
enum Hint {
    None,
    DatePart,
    Strftime,
    Regex,
    RegexFlags,
    Encoding,
    Digest,
    Tz,
    DateStr,
    NumStr,
    Separator,
    ArrayStr,
    /// small non-negative count (bounded output size)
    Count,
    /// small signed integer
    SmallInt,
    /// non-null field / key name
    FieldName,
    /// hex / base64 text
    Encoded,
}

fn hint(name: &str, pos: usize, t: &Ty) -> Hint {
    let s = t.is_string();
    let i = t.is_int();
    match (name, pos) {
        ("date_part" | "date_trunc" | "datepart" | "datetrunc" | "extract", 0) if s => Hint::DatePart,
        ("to_char" | "date_format", 1) if s => Hint::Strftime,
        ("to_timestamp" | "to_timestamp_seconds" | "to_timestamp_millis" | "to_timestamp_micros" | "to_timestamp_nanos" | "to_date" | "to_unixtime" | "to_time", 0) if s => Hint::DateStr,
        ("to_timestamp" | "to_timestamp_seconds" | "to_timestamp_millis" | "to_timestamp_micros" | "to_timestamp_nanos" | "to_date" | "to_unixtime" | "to_time", _) if s => Hint::Strftime,
        ("regexp_like" | "regexp_match" | "regexp_replace" | "regexp_count" | "regexp_instr" | "regexp_extract", 1) if s => Hint::Regex,
        ("regexp_like" | "regexp_match", 2) if s => Hint::RegexFlags,
        ("regexp_replace", 3) if s => Hint::RegexFlags,
        ("regexp_count" | "regexp_instr", p) if s && p >= 3 => Hint::RegexFlags,
        ("regexp_count" | "regexp_instr", _) if i => Hint::SmallInt,
        ("encode" | "decode", 1) if s => Hint::Encoding,
        ("decode", 0) => Hint::Encoded,
        ("digest", 1) if s => Hint::Digest,
        ("to_local_time" | "from_unixtime" | "at_time_zone", _) if s => Hint::Tz,
        ("from_unixtime", 0) => Hint::SmallInt,
        ("repeat" | "lpad" | "rpad" | "array_repeat" | "array_resize" | "space", 1) if i => Hint::Count,
        ("lpad" | "rpad", _) if i => Hint::Count,
        ("range" | "generate_series", _) if i => Hint::SmallInt,
        ("array_to_string", 1) | ("string_to_array", 1) | ("concat_ws", 0) | ("split_part", 1) if s => Hint::Separator,
        ("string_to_array", 0) if s => Hint::ArrayStr,
        ("split_part", 0) if s => Hint::ArrayStr,
        ("split_part" | "left" | "right" | "substr" | "substring" | "substr_index" | "substring_index" | "overlay" | "array_slice" | "array_element" | "array_remove_n" | "array_replace_n" | "array_position" | "strpos" | "chr" | "round" | "trunc" | "factorial" | "power" | "pow", _) if i => Hint::SmallInt,
        ("to_hex", _) => Hint::None,
        ("make_date" | "make_time", _) if i => Hint::SmallInt,
        ("make_date" | "make_time", _) if s => Hint::NumStr,
        ("date_bin", _) => Hint::None,
        ("named_struct", p) if s && p % 2 == 0 => Hint::FieldName,
        ("with_metadata", p) if s && p >= 1 => Hint::FieldName,
        _ => Hint::None,
    }
}

fn hinted_value(h: Hint, t: &Ty) -> Option<BoxedStrategy<V>> {
    let pick = |xs: &'static [&'static str]| prop::sample::select(xs).prop_map(|s| V::S(s.to_string())).boxed();
    Some(match h {
        Hint::None => return None,
        Hint::DatePart => pick(DATE_PARTS),
        Hint::Strftime => pick(STRFTIME),
        Hint::Regex => pick(REGEXES),
        Hint::RegexFlags => pick(REGEX_FLAGS),
        Hint::Encoding => pick(ENCODINGS),
        Hint::Digest => pick(DIGESTS),
        Hint::Tz => pick(TZ_NAMES),
        Hint::DateStr => pick(DATE_STRINGS),
        Hint::NumStr => {
            if t.is_string() {
                pick(NUM_STRINGS)
            } else {
                return None;
            }
        }
        Hint::Separator => pick(SEPARATORS),
        Hint::Encoded => match t {
            Ty::Utf8 | Ty::LargeUtf8 | Ty::Utf8View => pick(&["ff", "42", "7fffffff", "aGVsbG8=", "YQ==", "", "00", "YWJj", "zz", "a"]),
            _ => prop::sample::select(vec!["ff", "42", "aGVsbG8=", "YQ==", "", "00", "YWJj"]).prop_map(|s| V::Bin(s.as_bytes().to_vec())).boxed(),
        },
        Hint::FieldName => pick(&["a", "b", "c", "key", "x y", "A"]),
        Hint::ArrayStr => pick(ARRAY_STRINGS),
        Hint::Count => match t {
            Ty::U64 => (0u64..12).prop_map(V::U).boxed(),
            _ => prop_oneof![8 => (0i64..12).prop_map(V::I), 1 => Just(V::I(-1)), 1 => Just(V::I(40))].boxed(),
        },
        Hint::SmallInt => match t {
            Ty::U8 | Ty::U16 | Ty::U32 => (0i64..14).prop_map(V::I).boxed(),
            Ty::U64 => (0u64..14).prop_map(V::U).boxed(),
            _ => prop_oneof![8 => (-4i64..14).prop_map(V::I), 1 => prop::sample::select(vec![-100i64, 100, 2024, 1970]).prop_map(V::I)].boxed(),
        },
    })
}

/// generic string pool: general strings plus a sprinkle of every well-known literal family
fn string_value() -> BoxedStrategy<V> {
    prop_oneof![
        10 => small_string().prop_map(V::S),
        2 => prop::sample::select(DATE_STRINGS).prop_map(|s| V::S(s.to_string())),
        1 => prop::sample::select(NUM_STRINGS).prop_map(|s| V::S(s.to_string())),
        1 => prop::sample::select(DATE_PARTS).prop_map(|s| V::S(s.to_string())),
        1 => prop::sample::select(REGEXES).prop_map(|s| V::S(s.to_string())),
        1 => prop::sample::select(TZ_NAMES).prop_map(|s| V::S(s.to_string())),
    ]
    .boxed()
}

fn arg_value(name: &str, pos: usize, t: &Ty) -> BoxedStrategy<V> {
    let h = hint(name, pos, t);
    let base: BoxedStrategy<V> = match hinted_value(h, t) {
        Some(hv) => {
            if matches!(h, Hint::FieldName) {
                return hv;
            }
            if matches!(h, Hint::Count | Hint::SmallInt) {
                // bounded-size hints are hard limits
                hv
            } else {
                prop_oneof![6 => hv, 1 => non_null_value(t, false)].boxed()
            }
        }
        None => match t {
            Ty::Utf8 | Ty::LargeUtf8 | Ty::Utf8View => string_value(),
            _ => non_null_value(t, false),
        },
    };
    if matches!(t, Ty::Null) {
        return Just(V::Null).boxed();
    }
    prop_oneof![1 => Just(V::Null), 7 => base].boxed()
}

fn case_strategy(tier: Tier) -> BoxedStrategy<Case> {
    let cat = catalog();
    let usable: Vec<usize> = (0..cat.len()).filter(|i| !cat[*i].vectors.is_empty()).collect();
    let max_rows: usize = tier.pick(12, 24);
    (any::<u16>(), any::<u16>(), 1usize..=max_rows)
        .prop_flat_map(move |(fi, ti, rows)| {
            let info = &cat[usable[pick_index(fi, usable.len())]];
            let types = info.vectors[pick_index(ti, info.vectors.len())].clone();
            let name = info.name.clone();
            let n = types.len();
            let cols: Vec<BoxedStrategy<Vec<V>>> = types
                .iter()
                .enumerate()
                .map(|(i, t)| {
                    let v = arg_value(&name, i, t);
                    let formatish = hint(&name, i, t) != Hint::None;
                    let const_w = if formatish { 7 } else { 3 };
                    prop_oneof![
                        const_w => v.clone().prop_map(move |x| vec![x; rows]),
                        (10 - const_w) => prop::collection::vec(v, rows),
                    ]
                    .boxed()
                })
                .collect();
            let alt = (prop::collection::vec(0u8..4, n), prop::collection::vec(any::<bool>(), n), any::<bool>(), 0u8..4, 0u8..4, 1u8..6).prop_map(|(enc, scalar_mask, dict_small_keys, pad_front, pad_back, split_k)| Alt { enc, scalar_mask, dict_small_keys, pad_front, pad_back, split_k });
            (Just(name), Just(types), cols, Just(rows), alt)
        })
        .prop_map(|(func, types, mut cols, rows, alt)| {
            if matches!(func.as_str(), "cosine_distance" | "inner_product" | "array_add" | "array_subtract" | "array_distance") && cols.len() == 2 {
                // element-wise functions: per row lists of equal length (3 rows in 4), mostly without NULL elements
                for r in 0..rows {
                    if r % 4 == 3 {
                        continue;
                    }
                    if let (V::L(a), V::L(b)) = (cols[0][r].clone(), cols[1][r].clone()) {
                        let len = a.len().min(b.len());
                        cols[0][r] = V::L(a[..len].to_vec());
                        cols[1][r] = V::L(b[..len].to_vec());
                    }
                }
            }
            if func == "map" && cols.len() == 2 {
                // map(keys, values): per row lists of equal length, keys non-NULL and distinct
                for r in 0..rows {
                    let keys = cols[0][r].clone();
                    if let (V::L(ks), V::L(vs)) = (&keys, &cols[1][r].clone()) {
                        let mut uniq: Vec<V> = vec![];
                        for k in ks {
                            if !k.is_null() && !uniq.contains(k) {
                                uniq.push(k.clone());
                            }
                        }
                        let mut vals = vs.clone();
                        vals.resize(uniq.len(), V::Null);
                        cols[0][r] = V::L(uniq);
                        cols[1][r] = V::L(vals);
                    }
                }
            }
            Case { func, types, cols, rows, alt }
        })
        .boxed()
}

// ---------------------------------------------------------------------------------------------
// evaluation

#[derive(Debug, Clone)]
enum EvalErr {
    /// `return_field_from_args` or coercion rejected the representation
    Plan(String),
    NotImpl(String),
    Exec(String),
    Panic(String),
    /// property (b) broken: message
    Contract(String),
}

struct Evaluated {
    rendered: Vec<String>,
    result_type: DataType,
    non_null: usize,
}

#[derive(Clone)]
enum Arg {
    Array(ArrayRef),
    Scalar(ScalarValue),
}

fn config() -> Arc<ConfigOptions> {
    static C: OnceLock<Arc<ConfigOptions>> = OnceLock::new();
    Arc::clone(C.get_or_init(|| Arc::new(ConfigOptions::default())))
}

fn evaluate(udf: &ScalarUDF, args: &[Arg], rows: usize) -> Result<Evaluated, EvalErr> {
    let arg_fields: Vec<FieldRef> = args
        .iter()
        .enumerate()
        .map(|(i, a)| match a {
            Arg::Array(arr) => Arc::new(Field::new(format!("a{i}"), arr.data_type().clone(), true)),
            // what `Literal::return_field` gives
            Arg::Scalar(s) => Arc::new(Field::new("lit", s.data_type(), s.is_null())),
        })
        .collect();
    let scalars: Vec<Option<&ScalarValue>> = args
        .iter()
        .map(|a| match a {
            Arg::Scalar(s) => Some(s),
            _ => None,
        })
        .collect();
    let udf2 = udf.clone();
    let r = catch_unwind(AssertUnwindSafe(|| -> Result<(ColumnarValue, FieldRef), EvalErr> {
        let return_field = udf2.return_field_from_args(ReturnFieldArgs { arg_fields: &arg_fields, scalar_arguments: &scalars }).map_err(|e| EvalErr::Plan(truncate(&e.to_string(), 200)))?;
        let cargs: Vec<ColumnarValue> = args
            .iter()
            .map(|a| match a {
                Arg::Array(arr) => ColumnarValue::Array(Arc::clone(arr)),
                Arg::Scalar(s) => ColumnarValue::Scalar(s.clone()),
            })
            .collect();
        let out = udf2
            .invoke_with_args(ScalarFunctionArgs { args: cargs, arg_fields: arg_fields.clone(), number_rows: rows, return_field: Arc::clone(&return_field), config_options: config() })
            .map_err(|e| {
                let msg = e.to_string();
                if msg.contains("returned value of type") && msg.contains("was promised at planning time") {
                    EvalErr::Contract(truncate(&msg, 400))
                } else if matches!(e.find_root(), DataFusionError::NotImplemented(_)) {
                    EvalErr::NotImpl(truncate(&msg, 200))
                } else {
                    EvalErr::Exec(truncate(&msg, 200))
                }
            })?;
        Ok((out, return_field))
    }));
    let (out, return_field) = match r {
        Ok(r) => r?,
        Err(p) => {
            let msg = if let Some(s) = p.downcast_ref::<&str>() {
                s.to_string()
            } else if let Some(s) = p.downcast_ref::<String>() {
                s.clone()
            } else {
                "<panic>".to_string()
            };
            return Err(EvalErr::Panic(truncate(&msg, 200)));
        }
    };
    let all_scalar = !args.is_empty() && args.iter().all(|a| matches!(a, Arg::Scalar(_)));
    let arr: ArrayRef = match out {
        ColumnarValue::Array(a) => {
            if a.len() == rows {
                a
            } else if a.len() == 1 && all_scalar {
                // ScalarFunctionExpr turns this into a scalar
                let s = ScalarValue::try_from_array(&a, 0).map_err(|e| EvalErr::Exec(e.to_string()))?;
                s.to_array_of_size(rows).map_err(|e| EvalErr::Exec(e.to_string()))?
            } else {
                return Err(EvalErr::Contract(format!("returned an array of {} rows for number_rows = {rows}", a.len())));
            }
        }
        ColumnarValue::Scalar(s) => s.to_array_of_size(rows).map_err(|e| EvalErr::Exec(format!("scalar result cannot be expanded: {e}")))?,
    };
    if arr.data_type() != return_field.data_type() {
        return Err(EvalErr::Contract(format!("returned type {} but return_field_from_args promised {}", arr.data_type(), return_field.data_type())));
    }
    let rendered = render_all(arr.as_ref());
    let non_null = rendered.iter().filter(|r| *r != "NULL").count();
    Ok(Evaluated { rendered, result_type: arr.data_type().clone(), non_null })
}

fn flavour(t: &Ty, f: u8) -> Ty {
    match (t, f) {
        (Ty::Utf8 | Ty::LargeUtf8 | Ty::Utf8View, 1) => Ty::Utf8,
        (Ty::Utf8 | Ty::LargeUtf8 | Ty::Utf8View, 2) => Ty::LargeUtf8,
        (Ty::Utf8 | Ty::LargeUtf8 | Ty::Utf8View, 3) => Ty::Utf8View,
        (Ty::Binary | Ty::LargeBinary | Ty::BinaryView, 1) => Ty::Binary,
        (Ty::Binary | Ty::LargeBinary | Ty::BinaryView, 2) => Ty::LargeBinary,
        (Ty::Binary | Ty::LargeBinary | Ty::BinaryView, 3) => Ty::BinaryView,
        (Ty::List(e), f) => Ty::List(Box::new(flavour(e, f))),
        (o, _) => o.clone(),
    }
}

fn dictable(t: &Ty) -> bool {
    matches!(t, Ty::Utf8 | Ty::LargeUtf8 | Ty::Utf8View | Ty::Binary | Ty::LargeBinary | Ty::I8 | Ty::I16 | Ty::I32 | Ty::I64 | Ty::U8 | Ty::U16 | Ty::U32 | Ty::U64 | Ty::F32 | Ty::F64 | Ty::Date32 | Ty::Ts(_, _) | Ty::Dec(_, _))
}

// ---------------------------------------------------------------------------------------------

fn stats() -> &'static Mutex<BTreeMap<String, [u64; 4]>> {
    static S: OnceLock<Mutex<BTreeMap<String, [u64; 4]>>> = OnceLock::new();
    S.get_or_init(|| Mutex::new(BTreeMap::new()))
}

/// slots: 0 cases, 1 baseline successes, 2 non-trivial, 3 alternative comparisons made
fn bump(name: &str, slot: usize, by: u64) {
    if let Ok(mut m) = stats().lock() {
        m.entry(name.to_string()).or_insert([0; 4])[slot] += by;
    }
}

impl Property for C32 {
    type Case = Case;
    fn id(&self) -> &'static str {
        "C32"
    }
    fn sub(&self) -> &'static str {
        "c32"
    }
    fn strategy(&self, tier: Tier) -> BoxedStrategy<Case> {
        case_strategy(tier)
    }
    fn budget(&self, tier: Tier) -> Budget {
        Budget::new(tier.pick(12_000, 600_000), tier.pick(8, 16)).min_nontrivial(tier.pick(2_500, 120_000)).discard_cap(0.5)
    }
    fn rule(&self) -> String {
        "function and coerced argument-type vector drawn uniformly from the catalog (all default + nested scalar UDFs minus volatile ones and the deny-list; vectors = fixpoints of the planner coercion); 1-12 rows (thorough 1-24), \
         each argument constant or varying, values from per-type pools and the literal dictionary; every case is evaluated as baseline + scalar / string-encoding / binary-encoding / dictionary / sliced / split alternatives; \
         non-trivial = baseline succeeded with >= 1 non-NULL output and >= 1 alternative representation was accepted and compared; distinct by case JSON; labels fn=<name> count baseline successes per function"
            .into()
    }
    fn assumptions(&self) -> Vec<String> {
        let mut v = vec![
            "functions with Volatility::Volatile are skipped (random, uuid, file_row_index, input_file_name)".to_string(),
            "arrow-rs trusted for building inputs (ScalarValue::iter_to_array, cast to string flavours / dictionaries, slice) and for reading results".to_string(),
            "an alternative encoding is only compared when the planner's coercion of the new type vector is the identity (the function natively accepts it)".to_string(),
            "error in one representation and success in another is not a violation; NotImplemented is a clean rejection; a panic counts as a failed evaluation (labelled, listed in panic_log)".to_string(),
            "result encodings may differ between representations; values are compared after canonical rendering (NaN payload ignored)".to_string(),
            "default ConfigOptions (UTC session time zone)".to_string(),
            "Spark-compatible functions are outside this crate".to_string(),
        ];
        for (n, why) in DENY {
            v.push(format!("deny-list: {n} ({why})"));
        }
        for (n, why) in PLANNER_ONLY {
            v.push(format!("expected unevaluable: {n} ({why})"));
        }
        v
    }

    fn run(&self, case: &Case) -> CaseResult {
        run_cached(case, false)
    }

    fn known_signature(&self, case: &Case) -> Option<String> {
        known_sig(case, false)
    }

    fn extra(&self, _tier: Tier, _seed: u64) -> Result<Value, (String, Case)> {
        let cat = catalog();
        let st = stats().lock().map(|m| m.clone()).unwrap_or_default();
        let mut per_fn = serde_json::Map::new();
        let mut zero: Vec<String> = vec![];
        let mut no_vectors: Vec<String> = vec![];
        for f in cat {
            let s = st.get(&f.name).copied().unwrap_or([0; 4]);
            per_fn.insert(f.name.clone(), json!({"type_vectors": f.vectors.len(), "candidates": f.candidates, "cases": s[0], "baseline_ok": s[1], "nontrivial": s[2], "comparisons": s[3]}));
            if f.vectors.is_empty() {
                no_vectors.push(f.name.clone());
            }
            if s[1] == 0 {
                zero.push(f.name.clone());
            }
        }
        let unexpected: Vec<&String> = zero.iter().filter(|z| !PLANNER_ONLY.iter().any(|(n, _)| n == z) && !STARVED_OK.iter().any(|(n, _)| n == z)).collect();
        if !unexpected.is_empty() {
            panic!("functions without a single successful baseline evaluation: {unexpected:?}");
        }
        Ok(json!({"per_function": per_fn, "functions_with_zero_successes": zero, "functions_without_type_vectors": no_vectors,
                  "functions_in_scope": cat.len(), "starved_accepted": STARVED_OK.iter().map(|(n, w)| format!("{n}: {w}")).collect::<Vec<_>>()}))
    }
}

/// functions known to have no successful evaluation with the generated types, with the reason
pub const STARVED_OK: &[(&str, &str)] = &[];

/// Signature of a failing case: `<function>:<kind>` where kind is the representation (or contract clause)
/// that disagrees. Entries of /verif/known_findings.json with such a signature exclude exactly the cases of
/// that function failing in that way (the case is evaluated to find out; the result is cached for `run`).
fn known_sig(case: &Case, contract_only: bool) -> Option<String> {
    let r = run_cached(case, contract_only);
    match &r.outcome {
        Outcome::Violation(m) => m.strip_prefix("[sig=").and_then(|rest| rest.split(']').next()).map(|s| s.to_string()),
        _ => None,
    }
}

thread_local! {
    static LAST: std::cell::RefCell<Option<(u64, CaseResult)>> = const { std::cell::RefCell::new(None) };
}

fn run_cached(case: &Case, contract_only: bool) -> CaseResult {
    let fp = serde_json::to_vec(case).map(|b| fnv1a(&b)).unwrap_or(0) ^ (contract_only as u64);
    if let Some(r) = LAST.with(|l| l.borrow().as_ref().filter(|(f, _)| *f == fp).map(|(_, r)| r.clone())) {
        return r;
    }
    let r = run_case(case, contract_only);
    LAST.with(|l| *l.borrow_mut() = Some((fp, r.clone())));
    r
}

/// which representation a `check` message is about
fn kind_of(msg: &str) -> &'static str {
    for k in ["scalars", "encoding", "dict", "sliced"] {
        if msg.starts_with(k) {
            return k;
        }
    }
    "contract"
}

/// `contract_only`: judge only "declared type + one value per row" (the function-level part of C30)
fn run_case(case: &Case, contract_only: bool) -> CaseResult {
    let Some(info) = find_fn(&case.func) else { return CaseResult::discard("unknown function") };
    let name = info.name.as_str();
    let udf = info.udf.as_ref();
    let n = case.types.len();
    let rows = case.rows;
    if rows == 0 || case.cols.len() != n || case.cols.iter().any(|c| c.len() != rows) || case.alt.enc.len() != n || case.alt.scalar_mask.len() != n {
        return CaseResult::discard("malformed case");
    }
    if !is_fixpoint(udf, &case.types) {
        return CaseResult::discard("type vector no longer a coercion fixpoint");
    }
    bump(name, 0, 1);
    let mut labels: Vec<String> = vec![];
    let constant: Vec<bool> = case.cols.iter().map(|c| c.iter().all(|v| *v == c[0])).collect();
    let const_idx: Vec<usize> = (0..n).filter(|i| constant[*i]).collect();
    let sig = format!("{name}({})", case.types.iter().map(|t| t.short()).collect::<Vec<_>>().join(","));
    macro_rules! violation {
        ($kind:expr, $($arg:tt)*) => {
            return CaseResult::violation(format!("[sig={name}:{}] {sig}: {}", if contract_only { "contract" } else { $kind }, format!($($arg)*))).labels(labels.clone())
        };
    }

    // Arguments for rows lo..hi with array types `tv`; arguments in `scalar_set` are passed as scalars of their
    // logical (case) type; `slice` = (front, back) padding for sliced arrays.
    let make_args = |tv: &[Ty], lo: usize, hi: usize, scalar_set: &[usize], slice: Option<(usize, usize)>| -> Result<Vec<Arg>, String> {
        let mut args = vec![];
        for i in 0..n {
            let c = &case.cols[i];
            if scalar_set.contains(&i) {
                let st = match &tv[i] {
                    Ty::Dict(_, inner) => inner.as_ref(),
                    t => t,
                };
                args.push(Arg::Scalar(to_scalar(&c[0], st)));
                continue;
            }
            let a = match slice {
                None => to_array(&c[lo..hi], &tv[i])?,
                Some((pf, pb)) => {
                    let front: Vec<V> = c.iter().rev().cycle().take(pf).cloned().collect();
                    let back: Vec<V> = c.iter().cycle().take(pb).cloned().collect();
                    to_sliced_array(&c[lo..hi], &tv[i], &front, &back)?
                }
            };
            args.push(Arg::Array(a));
        }
        Ok(args)
    };
    let eval_with = |tv: &[Ty], lo: usize, hi: usize, scalar_set: &[usize], slice: Option<(usize, usize)>| -> Result<Evaluated, EvalErr> {
        let args = make_args(tv, lo, hi, scalar_set, slice).map_err(EvalErr::Plan)?;
        evaluate(udf, &args, hi - lo)
    };

    // ---- reference: all arrays; when that is rejected, the constant arguments as scalars (functions that
    // only take some argument as a constant)
    let base = eval_with(&case.types, 0, rows, &[], None);
    if let Err(EvalErr::Plan(m)) = &base {
        if m.starts_with("iter_to_array") || m.contains("cast") {
            return CaseResult::discard(format!("cannot build argument: {}", truncate(m, 60)));
        }
    }
    match &base {
        Err(EvalErr::Contract(m)) => violation!("contract", "baseline (all arrays): {m}"),
        Err(EvalErr::Panic(m)) => labels.push(format!("panic:fn={name}:{}", truncate(m, 40))),
        _ => {}
    }
    let mut ref_scalars: Vec<usize> = vec![];
    let mut reference: Result<Evaluated, EvalErr> = base;
    let mut ref_name = "all arrays";
    if reference.is_err() && !const_idx.is_empty() {
        let r2 = eval_with(&case.types, 0, rows, &const_idx, None);
        match &r2 {
            Err(EvalErr::Contract(m)) => violation!("contract", "constant arguments as scalars: {m}"),
            Ok(_) => {
                reference = r2;
                ref_scalars = const_idx.clone();
                ref_name = "constant arguments as scalars";
                labels.push("reference=scalars".into());
            }
            _ => {}
        }
    }
    let base_is_ref = ref_scalars.is_empty();

    let mut compared = 0u64;
    let mut accepted_alts = 0u64;
    let mut check = |what: &str, alt: Result<Evaluated, EvalErr>, labels: &mut Vec<String>| -> Result<(), String> {
        let short = what.split(' ').next().unwrap_or(what).to_string();
        match alt {
            Err(EvalErr::Contract(m)) => Err(format!("{what}: {m}")),
            Err(EvalErr::Panic(m)) => {
                labels.push(format!("panic:fn={name}:{}", truncate(&m, 40)));
                Ok(())
            }
            Err(_) => {
                labels.push(format!("alt-rejected:{}", short.split('=').next().unwrap_or("")));
                Ok(())
            }
            Ok(a) => {
                accepted_alts += 1;
                if let Ok(b) = &reference {
                    compared += 1;
                    if !contract_only && a.rendered != b.rendered {
                        let i = (0..rows).find(|i| a.rendered[*i] != b.rendered[*i]).unwrap_or(0);
                        return Err(format!(
                            "{what}: row {i} differs: reference ({ref_name}) = {} [{}], {what} = {} [{}]; arguments of that row: {:?}",
                            b.rendered[i],
                            b.result_type,
                            a.rendered[i],
                            a.result_type,
                            case.cols.iter().map(|c| &c[i]).collect::<Vec<_>>()
                        ));
                    }
                    labels.push(format!("alt:{short}"));
                }
                Ok(())
            }
        }
    };

    // ---- scalars
    let mut scalar_sets: Vec<(String, Vec<usize>)> = vec![];
    if !const_idx.is_empty() {
        if base_is_ref {
            scalar_sets.push(("scalars=all-constant".into(), const_idx.clone()));
        }
        if const_idx.len() >= 2 {
            for i in &const_idx {
                scalar_sets.push((format!("scalars=one arg {i}"), vec![*i]));
            }
            let sub: Vec<usize> = const_idx.iter().copied().filter(|i| case.alt.scalar_mask[*i]).collect();
            if !sub.is_empty() && sub.len() < const_idx.len() {
                scalar_sets.push((format!("scalars=subset {sub:?}"), sub));
            }
        }
    }
    for (what, set) in scalar_sets {
        if let Err(e) = check(&what, eval_with(&case.types, 0, rows, &set, None), &mut labels) {
            violation!(kind_of(&e), "{e}");
        }
    }

    // ---- string / binary encodings and dictionaries
    let mut enc_sets: Vec<(String, Vec<Ty>)> = vec![];
    for f in 1u8..=3 {
        let tv: Vec<Ty> = case.types.iter().map(|t| flavour(t, f)).collect();
        if tv != case.types {
            enc_sets.push((format!("encoding={}", ["", "plain", "large", "view"][f as usize]), tv));
        }
    }
    let mixed: Vec<Ty> = case.types.iter().zip(case.alt.enc.iter()).map(|(t, f)| flavour(t, *f)).collect();
    if mixed != case.types && !enc_sets.iter().any(|(_, tv)| *tv == mixed) {
        enc_sets.push(("encoding=mixed".into(), mixed));
    }
    for i in 0..n {
        if dictable(&case.types[i]) {
            let mut tv = case.types.clone();
            tv[i] = Ty::Dict(case.alt.dict_small_keys, Box::new(case.types[i].clone()));
            enc_sets.push((format!("dict=arg {i}"), tv));
        }
    }
    if n >= 2 && case.types.iter().all(dictable) {
        enc_sets.push(("dict=all".into(), case.types.iter().map(|t| Ty::Dict(case.alt.dict_small_keys, Box::new(t.clone()))).collect()));
    }
    for (what, tv) in enc_sets {
        let is_dict = what.starts_with("dict");
        // dictionaries never reach a function as literals: with constants as scalars only the array arguments change
        let eff: Vec<Ty> = if is_dict { (0..n).map(|i| if ref_scalars.contains(&i) { case.types[i].clone() } else { tv[i].clone() }).collect() } else { tv.clone() };
        if eff == case.types {
            continue;
        }
        if !is_fixpoint(udf, &eff) {
            labels.push(format!("alt-coerced-away:{}", what.split('=').next().unwrap_or("")));
            continue;
        }
        let desc = format!("{what} {:?}", eff.iter().map(|t| t.short()).collect::<Vec<_>>());
        if let Err(e) = check(&desc, eval_with(&eff, 0, rows, &ref_scalars, None), &mut labels) {
            violation!(kind_of(&e), "{e}");
        }
        // the same encoding with all constant arguments as scalars
        if base_is_ref && !const_idx.is_empty() && !is_dict {
            let desc = format!("{what}+scalars {:?}", eff.iter().map(|t| t.short()).collect::<Vec<_>>());
            if let Err(e) = check(&desc, eval_with(&eff, 0, rows, &const_idx, None), &mut labels) {
                violation!(kind_of(&e), "{e}");
            }
        }
    }

    // ---- sliced
    if n > ref_scalars.len() {
        let pf = case.alt.pad_front as usize + 1;
        let pb = case.alt.pad_back as usize;
        if let Err(e) = check(&format!("sliced offset {pf} tail {pb}"), eval_with(&case.types, 0, rows, &ref_scalars, Some((pf, pb))), &mut labels) {
            violation!(kind_of(&e), "{e}");
        }
    }

    // ---- typed NULL in every argument position, as a scalar and as an all-NULL array, the other arguments as in
    // the reference and with all constants as scalars: only the type / length contract is judged
    let mut null_ok = 0u64;
    for i in 0..n {
        for as_scalar in [true, false] {
            for other_scalars in [&ref_scalars, &const_idx] {
                let r = (|| -> Result<Evaluated, EvalErr> {
                    let mut args = make_args(&case.types, 0, rows, other_scalars, None).map_err(EvalErr::Plan)?;
                    args[i] = if as_scalar { Arg::Scalar(to_scalar(&V::Null, &case.types[i])) } else { Arg::Array(to_array(&vec![V::Null; rows], &case.types[i]).map_err(EvalErr::Plan)?) };
                    evaluate(udf, &args, rows)
                })();
                match r {
                    Err(EvalErr::Contract(m)) => {
                        violation!("contract", "argument {i} a NULL {} ({}), constants {other_scalars:?} as scalars: {m}", if as_scalar { "scalar" } else { "array" }, case.types[i].short())
                    }
                    Ok(_) => null_ok += 1,
                    Err(_) => {}
                }
                if other_scalars == &const_idx && ref_scalars == const_idx {
                    break;
                }
            }
        }
    }
    if null_ok > 0 {
        labels.push("alt:null-arg-contract".into());
        accepted_alts += null_ok;
        if contract_only {
            compared += null_ok;
        }
    }

    // ---- split into pieces (same scalar-ness as the reference)
    if rows >= 2 {
        let rowwise: Vec<Result<Evaluated, EvalErr>> = (0..rows).map(|i| eval_with(&case.types, i, i + 1, &ref_scalars, None)).collect();
        for r in &rowwise {
            if let Err(EvalErr::Contract(m)) = r {
                violation!("contract", "1-row batch: {m}");
            }
        }
        if rowwise.iter().all(|r| r.is_ok()) {
            accepted_alts += 1;
            let per_row: Vec<String> = rowwise.iter().map(|r| r.as_ref().map(|e| e.rendered[0].clone()).unwrap_or_default()).collect();
            match &reference {
                Ok(b) => {
                    compared += 1;
                    if !contract_only && b.rendered != per_row {
                        let i = (0..rows).find(|i| b.rendered[*i] != per_row[*i]).unwrap_or(0);
                        violation!("split-rows", "row {i} evaluated alone gives {} but inside the {rows}-row batch {} ({ref_name}); arguments of that row: {:?}", per_row[i], b.rendered[i], case.cols.iter().map(|c| &c[i]).collect::<Vec<_>>());
                    }
                    labels.push("alt:split-rows".into());
                }
                Err(EvalErr::NotImpl(_)) | Err(EvalErr::Plan(_)) => labels.push("rowwise-ok-but-batch-rejected-cleanly".into()),
                Err(EvalErr::Panic(m)) if !contract_only => violation!("rows-ok-batch-fails", "every row evaluates successfully alone but the {rows}-row batch panics: {m}"),
                Err(EvalErr::Exec(m)) if !contract_only => violation!("rows-ok-batch-fails", "every row evaluates successfully alone but the {rows}-row batch fails: {m}"),
                Err(EvalErr::Panic(_)) | Err(EvalErr::Exec(_)) => {}
                Err(EvalErr::Contract(_)) => {}
            }
        } else {
            labels.push("rowwise:some-row-fails".into());
        }
        if rows >= 3 {
            let k = (case.alt.split_k as usize).clamp(2, rows - 1);
            let mut parts: Vec<Result<Evaluated, EvalErr>> = vec![];
            let mut lo = 0;
            while lo < rows {
                let hi = (lo + k).min(rows);
                parts.push(eval_with(&case.types, lo, hi, &ref_scalars, None));
                lo = hi;
            }
            for r in &parts {
                if let Err(EvalErr::Contract(m)) = r {
                    violation!("contract", "{k}-row pieces: {m}");
                }
            }
            if parts.iter().all(|r| r.is_ok()) {
                accepted_alts += 1;
                if let Ok(b) = &reference {
                    compared += 1;
                    let joined: Vec<String> = parts.iter().flat_map(|r| r.as_ref().map(|e| e.rendered.clone()).unwrap_or_default()).collect();
                    if !contract_only && joined != b.rendered {
                        let i = (0..rows).find(|i| b.rendered[*i] != joined[*i]).unwrap_or(0);
                        violation!("split-k", "row {i} evaluated in {k}-row pieces gives {} but inside the {rows}-row batch {} ({ref_name}); arguments of that row: {:?}", joined[i], b.rendered[i], case.cols.iter().map(|c| &c[i]).collect::<Vec<_>>());
                    }
                    labels.push("alt:split-k".into());
                }
            }
        }
    }

    bump(name, 3, compared);
    let nt = match &reference {
        Ok(b) => b.non_null >= 1 && compared >= 1,
        Err(_) => false,
    };
    match &reference {
        Ok(b) => {
            bump(name, 1, 1);
            labels.push(format!("fn={name}"));
            labels.push(format!("result={}", logical_type(&b.result_type).split('<').next().unwrap_or("").split('(').next().unwrap_or("")));
            if b.non_null == 0 {
                labels.push("reference:all-null".into());
            }
        }
        Err(e) => {
            if std::env::var("C32_DEBUG").map(|d| d == name).unwrap_or(false) {
                eprintln!("DEBUG {sig}: {e:?}");
            }
            match e {
                EvalErr::Plan(_) => labels.push("reference:plan-error".into()),
                EvalErr::NotImpl(_) => labels.push("reference:not-implemented".into()),
                EvalErr::Exec(_) => labels.push("reference:exec-error".into()),
                _ => {}
            }
            if accepted_alts > 0 {
                labels.push("reference-failed-but-alt-ok".into());
            }
        }
    }
    if nt {
        bump(name, 2, 1);
    }
    labels.push(format!("args={n}"));
    if !const_idx.is_empty() {
        labels.push("has-constant-arg".into());
    }
    labels.sort();
    labels.dedup();
    CaseResult::pass().nontrivial(nt).labels(labels)
}

// ---------------------------------------------------------------------------------------------
// C30, function-level part: every scalar function result has the declared type and one value per row

pub struct C30Fn;

impl Property for C30Fn {
    type Case = Case;
    fn id(&self) -> &'static str {
        "C30"
    }
    fn sub(&self) -> &'static str {
        "c30fn"
    }
    fn strategy(&self, tier: Tier) -> BoxedStrategy<Case> {
        case_strategy(tier)
    }
    fn budget(&self, tier: Tier) -> Budget {
        Budget::new(tier.pick(10_000, 400_000), tier.pick(8, 16)).min_nontrivial(tier.pick(2_000, 80_000)).discard_cap(0.5)
    }
    fn rule(&self) -> String {
        "the C32 generator (function x coerced type vector x 1-12 rows, constant / varying arguments); every representation (all arrays, constants as scalars, string / binary encodings, dictionaries, sliced arrays, 1-row and k-row pieces, \
         and a typed NULL scalar / all-NULL array in every argument position) is judged only for: result type = return_field_from_args, and one value per row (array of number_rows, scalar, or 1-row array for all-scalar arguments); \
         an internal error of the ScalarUDF wrapper saying the returned type contradicts the promised one counts as a violation; non-trivial = reference evaluation succeeded with a non-NULL value and >= 1 alternative evaluated"
            .into()
    }
    fn assumptions(&self) -> Vec<String> {
        let mut v = vec!["same scope, deny-list and value pools as C32 (vf-fn c32)".to_string(), "debug-assertion builds: ScalarUDF::invoke_with_args reports a type mismatch as an internal error, which is read as a contract violation".to_string()];
        for (n, why) in DENY {
            v.push(format!("deny-list: {n} ({why})"));
        }
        v
    }
    fn run(&self, case: &Case) -> CaseResult {
        run_cached(case, true)
    }
    fn known_signature(&self, case: &Case) -> Option<String> {
        known_sig(case, true)
    }
}
