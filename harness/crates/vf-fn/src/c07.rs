//! C07 — aggregate function state can be split, merged and retracted exactly.
//!
//! Domain: every `AggregateUDF` of `all_default_aggregate_functions()` except the sketch quantiles
//! (`approx_percentile_cont`, `approx_percentile_cont_with_weight`, `approx_median`). Argument type vectors
//! are derived per function: candidate vectors (signature example types + products of a type pool) are
//! pushed through the planner's coercion (`fields_with_udf`) and kept when the coerced vector is a fixpoint
//! and `AggregateExprBuilder::build` + `create_accumulator` accept it. Literal-only arguments (`nth_value`
//! n, `string_agg` delimiter, `percentile_cont` percentile) are physical `Literal`s, as the planner makes
//! them. Variants: DISTINCT, IGNORE NULLS, ORDER BY (a separate unique Int64 key column, or the argument
//! itself), pre-sorted or unsorted input (`with_beneficial_ordering` as `update_aggr_exprs` applies it).
//!
//! Laws checked per case (every accumulator is created through `AggregateFunctionExpr`, values passed are
//! `expressions() ++ order_bys()` exactly as `aggregate_expressions` does):
//!  L1 split     one `update_batch` over all rows ≡ any split into batches (empty batches included);
//!  L2 merge     per-partition accumulators → `state()` → arrays → `merge_batch` (any partition assignment
//!               and merge order for order-insensitive functions or unique ORDER BY keys; contiguous
//!               partitions merged in order otherwise) ≡ one-shot (a state()/state_fields() mismatch is only labelled);
//!  L3 groups    `GroupsAccumulator` (native when `groups_accumulator_supported`, else the
//!               `GroupsAccumulatorAdapter` the hash aggregate would use) ≡ per-group scalar accumulators:
//!               nullable filters, `EmitTo::First(n)` with index shifting (a group may re-appear later as a new
//!               index), `state(emit)` → second accumulator `merge_batch`, `convert_to_state` for the tail of
//!               the input (after emitting everything, as the skip-partial-aggregation path does);
//!  L4 retract   sliding accumulator (`create_sliding_accumulator`) driven like
//!               `SlidingAggregateWindowExpr::get_aggregate_result_inside_range` (update entering rows, then
//!               retract leaving rows; no evaluate on an empty frame) ≡ fresh accumulator over the frame;
//!  L5 reference count/sum/min/max/avg/bool_and/bool_or/bit_and/bit_or/bit_xor ≡ own definition over the
//!               plain values.
//!
//! Soundness guards: floats are dyadic rationals k/8, |k| ≤ 64 (all sums/means exact); integers small enough
//! that no sum overflows; variance/stddev/covar/corr/regr compared with relative tolerance 1e-9 (+ the same
//! factor of the data scale as absolute slack) and skipped when the exact integer arithmetic says a
//! denominator is zero; `any_value` only has to return some non-null input value; DISTINCT
//! array_agg/string_agg without ORDER BY compared as multisets; `NotImplemented` from a capability
//! (sliding, groups, state) makes that law not applicable instead of failing; `grouping` has no
//! accumulator by design (listed as expected-unevaluable).
//!
//! Unresolved observation (domain restricted, case kept in /verif/regressions/C07/unresolved/): with
//! `first_value(list ORDER BY list DESC NULLS LAST)` and list values containing NULL elements, the winner
//! depends on the batch split (arrow's per-batch lexsort and the cross-batch ScalarValue comparison order
//! `[NULL]` and `[0]` differently). ORDER BY the argument itself is therefore only generated for non-nested types.
//! Likewise `max(struct)` over `{a:0,b:NULL}` and `{a:NULL,b:NULL}` gives a different winner one-shot
//! (arrow kernel inside update_batch) and merged (ScalarValue comparison inside merge_batch); list / struct
//! values are therefore generated without NULL children (top-level NULLs only).
//!
//! Deviations from DESIGN.md: lives in vf-fn (not vf-expr); Spark aggregates are out of scope of this
//! crate; quick = ~650 cases per function instead of 60 (a case costs well under a millisecond).
//!
//! Genuine defects found on the unchanged tree (each: regression case under /verif/regressions/C07/c07/, entry in
//! /verif/known_findings.json with a narrow signature excluded by `known_sig`, repair under /verif/fixes/C07-*.diff;
//! with all repairs applied `c07 quick` passes with known_excluded = 0 on seeds 0 and 1):
//!  1. ORDER BY on order-insensitive aggregates that inherit `order_sensitivity() = HardRequirement`
//!     (avg, count, bit_*, var*, stddev*, approx_distinct, corr, median): ordering columns reach a
//!     GroupsAccumulator that asserts its argument count → panic (`SELECT g, avg(x ORDER BY y) .. GROUP BY g`).
//!  2. (outside the statement — only labelled `state-differs-from-state_fields`, not in known_findings.json)
//!     min/max with ORDER BY: `state_fields()` declares ordering fields, `state()` has one value
//!     (`SELECT max(x ORDER BY y) FROM t` → "number of columns(1) must match number of fields(2)").
//!  3. percentile_cont: `convert_to_state` asserts one argument, always gets two → panic once partial
//!     aggregation is skipped.
//!  4. bit_xor(DISTINCT) under GROUP BY: groups accumulator ignores DISTINCT (wrong value / state type error).
//!  5. bit_xor sliding window: frame of only NULLs after a frame with a value gives 0 instead of NULL.
//!  6. nth_value(x, -k) without ORDER BY: merge keeps the first k+1 values instead of the last k.
//!  7. last_value pre-sorted: `then_some(len - 1)` overflow panic on an empty batch (overflow-check builds).
//!
//! Sensitivity probes (tools/mkpatch + tools/mutrun, `./check C07 quick`):
//!  P1 average.rs `AvgAccumulator::merge_batch`: `self.count += states[0].len() as u64` (ignores the counts of
//!     the partial states) → VIOLATION (exit 1) within the quick budget.
//!  P2 min_max.rs `SlidingMinAccumulator::retract_batch`: pops once per row instead of once per non-NULL
//!     value → VIOLATION after 45 cases: "min(U64): L4 retract: frame [1,5) ...: expected 0 got NULL".
//!  P3 accumulate.rs `NullState::build(EmitTo::First(n))`: remainder = `nulls.slice(0, len - n)` (stale
//!     seen-bits after an emitted prefix) → VIOLATION after 10 cases: "sum(F64): L3 groups: group 1 (index 0 of All,
//!     1 rows seen): expected NULL got 0.0".
use crate::vals::*;
use arrow::array::{Array, ArrayRef, BooleanArray, Int64Array, UInt32Array};
use arrow::compute::SortOptions;
use arrow::datatypes::{DataType, Field, FieldRef, Schema};
use datafusion_common::{DataFusionError, ScalarValue};
use datafusion_expr::type_coercion::functions::fields_with_udf;
use datafusion_expr::{AggregateUDF, TypeSignature};
use datafusion_expr_common::groups_accumulator::{EmitTo, GroupsAccumulator};
use datafusion_functions_aggregate_common::order::AggregateOrderSensitivity;
use datafusion_physical_expr::aggregate::{AggregateExprBuilder, AggregateFunctionExpr};
use datafusion_physical_expr::expressions::{Column, Literal};
use datafusion_physical_expr::{GroupsAccumulatorAdapter, PhysicalExpr, PhysicalSortExpr};
use proptest::prelude::*;
use serde::{Deserialize, Serialize};
use serde_json::{Value, json};
use std::collections::BTreeMap;
use std::sync::{Arc, Mutex, OnceLock};
use vf_kit::engine::*;

pub struct C07;

#[derive(Clone, Debug, Serialize, Deserialize)]
pub struct Order {
    /// ORDER BY the first argument itself instead of the separate unique key column
    pub by_arg0: bool,
    pub desc: bool,
    pub nulls_first: bool,
    /// feed the rows sorted by the ORDER BY (and tell `Beneficial` functions so)
    pub presorted: bool,
}

#[derive(Clone, Debug, Serialize, Deserialize)]
pub struct Row {
    pub a: Vec<V>,
    /// ORDER BY key (made unique by rank, ties broken by position)
    pub key: u16,
    /// logical group
    pub g: u8,
    /// partition for the merge law
    pub p: u8,
    /// filter value (None = NULL)
    pub keep: Option<bool>,
}

#[derive(Clone, Debug, Serialize, Deserialize)]
pub struct Case {
    pub func: String,
    pub types: Vec<Ty>,
    /// `Some(v)`: this argument is a literal
    pub consts: Vec<Option<V>>,
    pub distinct: bool,
    pub ignore_nulls: bool,
    pub order: Option<Order>,
    pub rows: Vec<Row>,
    pub cuts: Vec<u16>,
    pub parts: u8,
    pub merge_perm: Vec<u16>,
    pub merge_chunk: u8,
    pub use_filter: bool,
    pub emits: Vec<u16>,
    pub via_state: bool,
    pub convert_from: Option<u8>,
    pub window: Vec<(u8, u8)>,
}

pub const EXCLUDED: &[&str] = &["approx_percentile_cont", "approx_percentile_cont_with_weight", "approx_median"];
/// functions without an executable accumulator by design
pub const UNEVALUABLE: &[(&str, &str)] = &[("grouping", "no accumulator: GROUPING is rewritten by the planner, `accumulator()` is not implemented")];

fn literal_positions(name: &str) -> &'static [usize] {
    match name {
        "nth_value" | "string_agg" | "percentile_cont" => &[1],
        _ => &[],
    }
}

fn tolerance_family(name: &str) -> bool {
    name.starts_with("var") || name.starts_with("stddev") || name.starts_with("covar") || name == "corr" || name.starts_with("regr_")
}

/// result depends on the input order when there is no ORDER BY
fn order_dependent(name: &str) -> bool {
    matches!(name, "first_value" | "last_value" | "array_agg" | "string_agg" | "nth_value" | "any_value")
}

pub struct FnInfo {
    pub name: String,
    pub udaf: Arc<AggregateUDF>,
    pub vectors: Vec<Vec<Ty>>,
    pub candidates: usize,
    pub coerced: usize,
}

fn type_pool() -> Vec<Ty> {
    vec![
        Ty::I8,
        Ty::I16,
        Ty::I32,
        Ty::I64,
        Ty::U8,
        Ty::U16,
        Ty::U32,
        Ty::U64,
        Ty::F32,
        Ty::F64,
        Ty::Dec(10, 2),
        Ty::Dec(25, 4),
        Ty::Utf8,
        Ty::LargeUtf8,
        Ty::Utf8View,
        Ty::Binary,
        Ty::Bool,
        Ty::Date32,
        Ty::Ts(3, None),
        Ty::Ts(1, Some("+01:00".into())),
        Ty::Dur(3),
        Ty::Time64Ns,
        Ty::List(Box::new(Ty::I32)),
        Ty::Struct(vec![("a".into(), Ty::I32), ("b".into(), Ty::Utf8)]),
        Ty::Dict(false, Box::new(Ty::Utf8)),
        Ty::Null,
    ]
}

fn arities(sig: &TypeSignature, out: &mut Vec<usize>) {
    match sig {
        TypeSignature::Exact(v) => out.push(v.len()),
        TypeSignature::Uniform(n, _) | TypeSignature::Numeric(n) | TypeSignature::String(n) | TypeSignature::Comparable(n) | TypeSignature::Any(n) => out.push(*n),
        TypeSignature::Coercible(v) => out.push(v.len()),
        TypeSignature::Nullary => out.push(0),
        TypeSignature::Variadic(_) | TypeSignature::VariadicAny => out.extend([1, 2]),
        TypeSignature::UserDefined => out.extend([1, 2]),
        TypeSignature::OneOf(sigs) => {
            for s in sigs {
                arities(s, out)
            }
        }
        TypeSignature::ArraySignature(_) => out.push(1),
    }
}

fn fields_of(types: &[Ty]) -> Vec<FieldRef> {
    types.iter().enumerate().map(|(i, t)| Arc::new(Field::new(format!("a{i}"), t.dt(), true))).collect()
}

fn default_const(name: &str, t: &Ty) -> V {
    match name {
        "nth_value" => V::I(1),
        "percentile_cont" => V::f(0.5),
        _ => {
            if matches!(t, Ty::Null) {
                V::Null
            } else {
                V::S(",".into())
            }
        }
    }
}

fn catalog() -> &'static Vec<FnInfo> {
    static CAT: OnceLock<Vec<FnInfo>> = OnceLock::new();
    CAT.get_or_init(|| {
        let pool = type_pool();
        let mut out = vec![];
        let mut fns = datafusion_functions_aggregate::all_default_aggregate_functions();
        fns.sort_by(|a, b| a.name().cmp(b.name()));
        for udaf in fns {
            let name = udaf.name().to_string();
            if EXCLUDED.contains(&name.as_str()) {
                continue;
            }
            let mut ar = vec![];
            arities(&udaf.signature().type_signature, &mut ar);
            ar.sort();
            ar.dedup();
            let lits = literal_positions(&name);
            let mut cands: Vec<Vec<Ty>> = vec![];
            for ex in udaf.signature().type_signature.get_example_types() {
                if let Some(v) = ex.iter().map(Ty::from_dt_exact).collect::<Option<Vec<Ty>>>() {
                    cands.push(v);
                }
            }
            for n in ar {
                match n {
                    0 => {}
                    1 => cands.extend(pool.iter().map(|t| vec![t.clone()])),
                    2 => {
                        for a in &pool {
                            for b in &pool {
                                if lits.contains(&1) {
                                    // the literal position only takes the literal types the planner would see
                                    let ok = match name.as_str() {
                                        "nth_value" => *b == Ty::I64,
                                        "percentile_cont" => *b == Ty::F64,
                                        _ => matches!(b, Ty::Utf8 | Ty::LargeUtf8 | Ty::Utf8View | Ty::Null),
                                    };
                                    if !ok {
                                        continue;
                                    }
                                }
                                cands.push(vec![a.clone(), b.clone()]);
                            }
                        }
                    }
                    _ => {
                        for a in &pool {
                            cands.push(vec![a.clone(); n]);
                        }
                    }
                }
            }
            let candidates = cands.len();
            let mut coerced: Vec<Vec<Ty>> = vec![];
            for c in cands {
                let fields = fields_of(&c);
                let Ok(co) = fields_with_udf(&fields, udaf.as_ref()) else { continue };
                let Some(tv) = co.iter().map(|f| Ty::from_dt_exact(f.data_type())).collect::<Option<Vec<Ty>>>() else { continue };
                // fixpoint: the planner would not insert any further cast
                let again = fields_with_udf(&fields_of(&tv), udaf.as_ref());
                let fix = matches!(&again, Ok(f2) if f2.iter().map(|f| f.data_type().clone()).collect::<Vec<_>>() == tv.iter().map(|t| t.dt()).collect::<Vec<_>>());
                if fix && !coerced.contains(&tv) {
                    coerced.push(tv);
                }
            }
            coerced.sort();
            let ncoerced = coerced.len();
            let mut vectors = vec![];
            for tv in coerced {
                let consts: Vec<Option<V>> = tv.iter().enumerate().map(|(i, t)| if lits.contains(&i) { Some(default_const(&name, t)) } else { None }).collect();
                let probe = Setup { func: name.clone(), types: tv.clone(), consts, distinct: false, ignore_nulls: false, order: None };
                if let Ok(ctx) = build_ctx(&udaf, &probe) {
                    if ctx.expr.create_accumulator().is_ok() {
                        vectors.push(tv);
                    }
                }
            }
            out.push(FnInfo { name, udaf, vectors, candidates, coerced: ncoerced });
        }
        out
    })
}

// ---------------------------------------------------------------------------------------------
// building the aggregate expression

struct Setup {
    func: String,
    types: Vec<Ty>,
    consts: Vec<Option<V>>,
    distinct: bool,
    ignore_nulls: bool,
    order: Option<Order>,
}

struct Ctx {
    /// expression of the stage that reads raw input (Partial / Single)
    expr: AggregateFunctionExpr,
    /// expression of the stage that merges partial states (Final): `OptimizeAggregateOrder` never marks it
    /// as reading pre-ordered input
    final_expr: AggregateFunctionExpr,
    /// the ORDER BY columns are appended to the values (order-sensitive function with ORDER BY)
    n_order_cols: usize,
    by_arg0: bool,
    sort_options: SortOptions,
    /// rows must be fed in ORDER BY order
    feed_sorted: bool,
    has_order: bool,
}

fn build_ctx(udaf: &Arc<AggregateUDF>, s: &Setup) -> Result<Ctx, DataFusionError> {
    let mut fields: Vec<Field> = s.types.iter().enumerate().map(|(i, t)| Field::new(format!("a{i}"), t.dt(), true)).collect();
    fields.push(Field::new("ord", DataType::Int64, false));
    let ord_idx = fields.len() - 1;
    let schema = Arc::new(Schema::new(fields));
    let mut args: Vec<Arc<dyn PhysicalExpr>> = vec![];
    for (i, t) in s.types.iter().enumerate() {
        match s.consts.get(i).and_then(|c| c.as_ref()) {
            Some(v) => args.push(Arc::new(Literal::new(to_scalar(v, t)))),
            None => args.push(Arc::new(Column::new(&format!("a{i}"), i))),
        }
    }
    let mut builder = AggregateExprBuilder::new(Arc::clone(udaf), args).schema(Arc::clone(&schema)).alias("agg").with_distinct(s.distinct).with_ignore_nulls(s.ignore_nulls);
    let mut sort_options = SortOptions::default();
    let mut by_arg0 = false;
    if let Some(o) = &s.order {
        sort_options = SortOptions { descending: o.desc, nulls_first: o.nulls_first };
        by_arg0 = o.by_arg0;
        let e: Arc<dyn PhysicalExpr> = if o.by_arg0 { Arc::new(Column::new("a0", 0)) } else { Arc::new(Column::new("ord", ord_idx)) };
        builder = builder.order_by(vec![PhysicalSortExpr::new(e, sort_options)]);
    }
    let mut expr = builder.build()?;
    let final_expr = expr.clone();
    let sens = expr.order_sensitivity();
    let has_order = !expr.order_bys().is_empty();
    let mut feed_sorted = false;
    if let Some(o) = &s.order {
        if has_order {
            match sens {
                AggregateOrderSensitivity::HardRequirement => feed_sorted = true,
                AggregateOrderSensitivity::Beneficial => {
                    feed_sorted = o.presorted;
                    // what `update_aggr_exprs` does once it knows whether the input ordering satisfies the requirement
                    if let Some(e2) = Arc::new(expr.clone()).with_beneficial_ordering(o.presorted)? {
                        expr = e2;
                    }
                }
                AggregateOrderSensitivity::SoftRequirement => feed_sorted = o.presorted,
                AggregateOrderSensitivity::Insensitive => {}
            }
        }
    }
    let n_order_cols = expr.order_bys().len();
    Ok(Ctx { expr, final_expr, n_order_cols, by_arg0, sort_options, feed_sorted, has_order })
}

fn find_fn(name: &str) -> Option<&'static FnInfo> {
    catalog().iter().find(|f| f.name == name)
}

// ---------------------------------------------------------------------------------------------
// strategy

fn c07_value(t: &Ty) -> BoxedStrategy<V> {
    // integers: small enough that 64 of them never overflow a 64-bit sum; edge values of narrow types kept
    let base: BoxedStrategy<V> = match t {
        Ty::I8 | Ty::I16 | Ty::I32 | Ty::U8 | Ty::U16 | Ty::U32 => non_null_value(t, true),
        Ty::I64 => prop_oneof![4 => (-6i64..20).prop_map(V::I), 2 => (-(1i64 << 40)..(1i64 << 40)).prop_map(V::I), 1 => prop::sample::select(vec![1i64 << 53, (1i64 << 53) + 1, -(1i64 << 53) - 1, i32::MAX as i64 + 1]).prop_map(V::I)].boxed(),
        Ty::U64 => prop_oneof![4 => (0u64..20).prop_map(V::U), 2 => (0u64..(1u64 << 40)).prop_map(V::U), 1 => prop::sample::select(vec![1u64 << 53, (1u64 << 53) + 1]).prop_map(V::U)].boxed(),
        Ty::Dec(_, _) | Ty::Dec256(_, _) => prop_oneof![4 => (-50i64..300).prop_map(V::I), 1 => (-99_999_999i64..99_999_999).prop_map(V::I)].boxed(),
        Ty::Dur(_) => (-1000i64..100_000).prop_map(V::I).boxed(),
        Ty::Utf8 | Ty::LargeUtf8 | Ty::Utf8View => prop_oneof![3 => prop::sample::select(vec!["", "a", "b", "ab", "abc", "B", "é", "日本", "thisisalongerstringthatdoesnotfitinline", "x,y"]).prop_map(|s| V::S(s.to_string())), 1 => "[a-c]{0,3}".prop_map(V::S)].boxed(),
        // nested values without NULL children (see header: ordering of nested values with NULL children)
        Ty::List(e) => prop::collection::vec(non_null_value(e, true), 0..5).prop_map(V::L).boxed(),
        Ty::Struct(fs) => fs.iter().map(|(_, ft)| non_null_value(ft, true)).collect::<Vec<_>>().prop_map(V::St).boxed(),
        _ => non_null_value(t, true),
    };
    if matches!(t, Ty::Null) {
        return Just(V::Null).boxed();
    }
    prop_oneof![1 => Just(V::Null), 4 => base].boxed()
}

fn const_value(name: &str, t: &Ty) -> BoxedStrategy<V> {
    match name {
        "nth_value" => prop::sample::select(vec![1i64, 2, 3, 5, -1, -2, -4]).prop_map(V::I).boxed(),
        "percentile_cont" => prop::sample::select(vec![0.0f64, 0.5, 1.0, 0.25, 0.9, 0.3, 0.75]).prop_map(V::f).boxed(),
        _ => {
            if matches!(t, Ty::Null) {
                Just(V::Null).boxed()
            } else {
                prop_oneof![5 => prop::sample::select(vec![",", "", "; ", "ab", "|", "é"]).prop_map(|s| V::S(s.to_string())), 1 => Just(V::Null)].boxed()
            }
        }
    }
}

fn case_strategy(tier: Tier) -> BoxedStrategy<Case> {
    let cat = catalog();
    let usable: Vec<usize> = (0..cat.len()).filter(|i| !cat[*i].vectors.is_empty()).collect();
    let max_rows: usize = tier.pick(24, 64);
    (any::<u16>(), any::<u16>())
        .prop_flat_map(move |(fi, ti)| {
            let info = &cat[usable[pick_index(fi, usable.len())]];
            let types = info.vectors[pick_index(ti, info.vectors.len())].clone();
            let name = info.name.clone();
            let lits = literal_positions(&name);
            let consts: Vec<BoxedStrategy<Option<V>>> = types.iter().enumerate().map(|(i, t)| if lits.contains(&i) { const_value(&name, t).prop_map(Some).boxed() } else { Just(None).boxed() }).collect();
            let arg_strats: Vec<BoxedStrategy<V>> = types.iter().map(c07_value).collect();
            let row = (arg_strats, any::<u16>(), 0u8..5, 0u8..4, prop_oneof![5 => Just(Some(true)), 2 => Just(Some(false)), 1 => Just(None)]).prop_map(|(a, key, g, p, keep)| Row { a, key, g, p, keep });
            let order = prop::option::weighted(0.4, (prop::bool::weighted(0.25), any::<bool>(), any::<bool>(), any::<bool>()).prop_map(|(by_arg0, desc, nulls_first, presorted)| Order { by_arg0, desc, nulls_first, presorted }));
            (
                (Just(name), Just(types), consts, prop::bool::weighted(0.25), prop::bool::weighted(0.25), order),
                prop::collection::vec(row, 0..=max_rows),
                (prop::collection::vec(any::<u16>(), 0..5), 1u8..=4, prop::collection::vec(any::<u16>(), 4), 1u8..=4),
                (prop::bool::weighted(0.5), prop::collection::vec(prop_oneof![3 => Just(0u16), 2 => any::<u16>()], 6), any::<bool>(), prop::option::weighted(0.3, 0u8..4)),
                prop::collection::vec((0u8..4, 0u8..5), 0..10),
            )
        })
        .prop_map(|((func, types, consts, distinct, ignore_nulls, mut order), rows, (cuts, parts, merge_perm, merge_chunk), (use_filter, emits, via_state, convert_from), window)| {
            // ORDER BY the argument itself only for non-nested argument types (see header: unresolved observation)
            if let Some(o) = order.as_mut() {
                if matches!(types[0], Ty::List(_) | Ty::Struct(_) | Ty::Null) {
                    o.by_arg0 = false;
                }
                // percentile_cont(p) WITHIN GROUP (ORDER BY x [DESC]) is planned as percentile_cont(x, p ORDER BY x [DESC])
                if func == "percentile_cont" {
                    o.by_arg0 = true;
                }
            }
            Case {
            func,
            types,
            consts,
            distinct,
            ignore_nulls,
            order,
            rows,
            cuts,
            parts,
            merge_perm,
            merge_chunk,
            use_filter,
            emits,
            via_state,
            convert_from,
            window,
            }
        })
        .boxed()
}

// ---------------------------------------------------------------------------------------------
// evaluation helpers

enum Fail {
    /// the engine rejected the construct cleanly
    NotImpl(String),
    Err(String),
}

fn classify(e: DataFusionError) -> Fail {
    let root_is_ni = matches!(e.find_root(), DataFusionError::NotImplemented(_));
    if root_is_ni { Fail::NotImpl(truncate(&e.to_string(), 200)) } else { Fail::Err(truncate(&e.to_string(), 400)) }
}

struct Data<'a> {
    case: &'a Case,
    ctx: &'a Ctx,
    /// unique rank per row (position in `case.rows`)
    rank: Vec<i64>,
}

impl Data<'_> {
    /// value arrays for the given rows (indices into case.rows), in that order
    fn arrays(&self, idx: &[usize]) -> Result<Vec<ArrayRef>, String> {
        let mut out = vec![];
        for (i, t) in self.case.types.iter().enumerate() {
            let vals: Vec<V> = match self.case.consts.get(i).and_then(|c| c.as_ref()) {
                Some(c) => vec![c.clone(); idx.len()],
                None => idx.iter().map(|r| self.case.rows[*r].a.get(i).cloned().unwrap_or(V::Null)).collect(),
            };
            out.push(to_array(&vals, t)?);
        }
        if self.ctx.n_order_cols > 0 {
            if self.ctx.by_arg0 {
                out.push(Arc::clone(&out[0]));
            } else {
                out.push(Arc::new(Int64Array::from(idx.iter().map(|r| self.rank[*r]).collect::<Vec<i64>>())) as ArrayRef);
            }
        }
        Ok(out)
    }

    fn filter(&self, idx: &[usize]) -> Option<BooleanArray> {
        if !self.case.use_filter {
            return None;
        }
        Some(BooleanArray::from(idx.iter().map(|r| self.case.rows[*r].keep).collect::<Vec<Option<bool>>>()))
    }

    fn kept(&self, r: usize) -> bool {
        !self.case.use_filter || self.case.rows[r].keep == Some(true)
    }

    /// scalar accumulator over `idx` in one update
    fn one_shot(&self, idx: &[usize]) -> Result<ScalarValue, Fail> {
        let mut acc = self.ctx.expr.create_accumulator().map_err(classify)?;
        if !idx.is_empty() {
            let arrays = self.arrays(idx).map_err(Fail::Err)?;
            acc.update_batch(&arrays).map_err(classify)?;
        }
        acc.evaluate().map_err(classify)
    }
}

fn split_points(cuts: &[u16], n: usize) -> Vec<usize> {
    let mut pts: Vec<usize> = cuts.iter().map(|c| pick_index(*c, n + 1)).collect();
    pts.sort();
    pts
}

fn chunks<'a>(idx: &'a [usize], pts: &[usize]) -> Vec<&'a [usize]> {
    let mut out = vec![];
    let mut prev = 0;
    for p in pts {
        out.push(&idx[prev..*p]);
        prev = *p;
    }
    out.push(&idx[prev..]);
    out
}

fn render_scalar(v: &ScalarValue) -> String {
    match v.to_array() {
        Ok(a) => render(a.as_ref(), 0),
        Err(e) => format!("<to_array failed: {e}>"),
    }
}

fn scalar_f64(v: &ScalarValue) -> Option<f64> {
    match v {
        ScalarValue::Float64(Some(x)) => Some(*x),
        ScalarValue::Float32(Some(x)) => Some(*x as f64),
        _ => None,
    }
}

fn sorted_list_elems(v: &ScalarValue) -> Option<Vec<String>> {
    let a = v.to_array().ok()?;
    if a.is_null(0) {
        return Some(vec!["<NULL LIST>".into()]);
    }
    let elems = match a.data_type() {
        DataType::List(_) => arrow::array::AsArray::as_list::<i32>(a.as_ref()).value(0),
        _ => return None,
    };
    let mut r = render_all(elems.as_ref());
    r.sort();
    Some(r)
}

struct Comparer<'a> {
    case: &'a Case,
    name: &'a str,
    tol: bool,
    /// absolute slack for the tolerance families
    scale: f64,
    multiset: bool,
    /// any_value: membership instead of equality
    any_of: Option<Vec<String>>,
}

/// exact (integer) test: over the rows whose arguments are all non-NULL, is there a column with zero
/// variance, or are there fewer than 3 such rows? Then a denominator of the statistic may be exactly zero
/// and the floating-point result is 0/0-like noise or NULL depending on the evaluation order.
fn stat_degenerate(case: &Case, rows: &[usize]) -> bool {
    let full: Vec<&Row> = rows.iter().map(|r| &case.rows[*r]).filter(|r| r.a.iter().all(|v| !v.is_null())).collect();
    if full.len() < 3 {
        return true;
    }
    for c in 0..case.types.len() {
        let xs: Vec<i128> = full
            .iter()
            .map(|r| match &r.a[c] {
                V::F(Fl(x)) => (*x * 8.0) as i128,
                V::I(x) => *x as i128 * 8,
                V::U(x) => *x as i128 * 8,
                _ => 0,
            })
            .collect();
        let n = xs.len() as i128;
        let s: i128 = xs.iter().sum();
        let s2: i128 = xs.iter().map(|x| x * x).sum();
        if n * s2 - s * s == 0 {
            return true;
        }
    }
    false
}

impl Comparer<'_> {
    /// `rows`: the input rows both values were computed from
    fn same(&self, rows: &[usize], expected: &ScalarValue, got: &ScalarValue) -> Result<(), String> {
        if self.any_of.is_some() {
            // both are checked for membership separately
            return Ok(());
        }
        if self.tol {
            let fa = scalar_f64(expected);
            let fb = scalar_f64(got);
            let floatish = |v: &ScalarValue| matches!(v, ScalarValue::Float64(_) | ScalarValue::Float32(_));
            if floatish(expected) && floatish(got) {
                if stat_degenerate(self.case, rows) {
                    return Ok(());
                }
                if let (Some(a), Some(b)) = (fa, fb) {
                    if a.is_nan() && b.is_nan() {
                        return Ok(());
                    }
                    let d = (a - b).abs();
                    if a == b || d <= 1e-9 * a.abs().max(b.abs()) + 1e-9 * self.scale {
                        return Ok(());
                    }
                    return Err(format!("expected {a:?} got {b:?} (|diff|={d:e}, tolerance 1e-9 relative + 1e-9*{:e})", self.scale));
                }
            }
        }
        if self.multiset {
            if let (Some(a), Some(b)) = (sorted_list_elems(expected), sorted_list_elems(got)) {
                return if a == b { Ok(()) } else { Err(format!("expected multiset {a:?} got {b:?}")) };
            }
            if let (Some(a), Some(b)) = (expected.try_as_str().flatten(), got.try_as_str().flatten()) {
                let mut x: Vec<char> = a.chars().collect();
                let mut y: Vec<char> = b.chars().collect();
                x.sort();
                y.sort();
                return if x == y { Ok(()) } else { Err(format!("expected (as character multiset) {a:?} got {b:?}")) };
            }
        }
        let (a, b) = (render_scalar(expected), render_scalar(got));
        if a == b { Ok(()) } else { Err(format!("expected {a} got {b}")) }
    }

    fn member(&self, got: &ScalarValue, candidates: &[String], what: &str) -> Result<(), String> {
        let r = render_scalar(got);
        if candidates.is_empty() {
            return if r == "NULL" { Ok(()) } else { Err(format!("{}: {what}: no non-null input but result {r}", self.name)) };
        }
        if candidates.contains(&r) { Ok(()) } else { Err(format!("{}: {what}: result {r} is not one of the non-null inputs {candidates:?}", self.name)) }
    }
}

// ---------------------------------------------------------------------------------------------
// L5: own definitions

#[derive(Debug, PartialEq)]
enum Exp {
    Null,
    Int(i128),
    F(f64),
    Bool(bool),
    Str(String),
    Bytes(Vec<u8>),
}

fn exp_of_scalar(v: &ScalarValue) -> Option<Exp> {
    use ScalarValue::*;
    if v.is_null() {
        return Some(Exp::Null);
    }
    Some(match v {
        Boolean(Some(b)) => Exp::Bool(*b),
        Int8(Some(x)) => Exp::Int(*x as i128),
        Int16(Some(x)) => Exp::Int(*x as i128),
        Int32(Some(x)) => Exp::Int(*x as i128),
        Int64(Some(x)) => Exp::Int(*x as i128),
        UInt8(Some(x)) => Exp::Int(*x as i128),
        UInt16(Some(x)) => Exp::Int(*x as i128),
        UInt32(Some(x)) => Exp::Int(*x as i128),
        UInt64(Some(x)) => Exp::Int(*x as i128),
        Float32(Some(x)) => Exp::F(*x as f64),
        Float64(Some(x)) => Exp::F(*x),
        Decimal128(Some(x), _, _) => Exp::Int(*x),
        Date32(Some(x)) => Exp::Int(*x as i128),
        TimestampSecond(Some(x), _) | TimestampMillisecond(Some(x), _) | TimestampMicrosecond(Some(x), _) | TimestampNanosecond(Some(x), _) => Exp::Int(*x as i128),
        DurationNanosecond(Some(x)) | Time64Nanosecond(Some(x)) => Exp::Int(*x as i128),
        Utf8(Some(s)) | LargeUtf8(Some(s)) | Utf8View(Some(s)) => Exp::Str(s.clone()),
        Binary(Some(b)) | LargeBinary(Some(b)) | BinaryView(Some(b)) => Exp::Bytes(b.clone()),
        _ => return None,
    })
}

/// plain value → comparable form for the given type (None: no reference for this type)
fn exp_of_v(v: &V, t: &Ty) -> Option<Exp> {
    if v.is_null() {
        return Some(Exp::Null);
    }
    exp_of_scalar(&to_scalar(v, t))
}

fn exp_cmp(a: &Exp, b: &Exp) -> Option<std::cmp::Ordering> {
    match (a, b) {
        (Exp::Int(x), Exp::Int(y)) => Some(x.cmp(y)),
        (Exp::F(x), Exp::F(y)) => x.partial_cmp(y),
        (Exp::Bool(x), Exp::Bool(y)) => Some(x.cmp(y)),
        (Exp::Str(x), Exp::Str(y)) => Some(x.as_bytes().cmp(y.as_bytes())),
        (Exp::Bytes(x), Exp::Bytes(y)) => Some(x.cmp(y)),
        _ => None,
    }
}

fn reference(case: &Case, idx: &[usize]) -> Option<Exp> {
    if case.order.as_ref().map(|o| o.by_arg0).unwrap_or(false) {
        // harmless for these functions, but keep the reference to the plain forms
    }
    let name = case.func.as_str();
    let t0 = case.types.first()?;
    if matches!(t0, Ty::Dict(_, _) | Ty::Null | Ty::List(_) | Ty::Struct(_)) {
        return None;
    }
    if name == "count" {
        if case.distinct && case.types.len() != 1 {
            return None;
        }
        let rows: Vec<&Row> = idx.iter().map(|r| &case.rows[*r]).filter(|r| r.a.iter().all(|v| !v.is_null())).collect();
        if case.distinct {
            let mut seen: Vec<Exp> = vec![];
            for r in rows {
                let e = exp_of_v(&r.a[0], t0)?;
                if !seen.contains(&e) {
                    seen.push(e);
                }
            }
            return Some(Exp::Int(seen.len() as i128));
        }
        return Some(Exp::Int(rows.len() as i128));
    }
    if case.types.len() != 1 {
        return None;
    }
    let mut vals: Vec<Exp> = vec![];
    for r in idx {
        let e = exp_of_v(&case.rows[*r].a[0], t0)?;
        if e != Exp::Null {
            vals.push(e);
        }
    }
    if case.distinct {
        let mut d: Vec<Exp> = vec![];
        for v in vals {
            if !d.contains(&v) {
                d.push(v);
            }
        }
        vals = d;
    }
    match name {
        "sum" => {
            if vals.is_empty() {
                return Some(Exp::Null);
            }
            match &vals[0] {
                Exp::Int(_) if t0.is_int() || matches!(t0, Ty::Dec(_, _)) => Some(Exp::Int(vals.iter().map(|v| if let Exp::Int(x) = v { *x } else { 0 }).sum())),
                Exp::F(_) => Some(Exp::F(vals.iter().map(|v| if let Exp::F(x) = v { *x } else { 0.0 }).sum())),
                _ => None,
            }
        }
        "avg" => {
            if !t0.is_float() {
                return None;
            }
            if vals.is_empty() {
                return Some(Exp::Null);
            }
            let s: f64 = vals.iter().map(|v| if let Exp::F(x) = v { *x } else { 0.0 }).sum();
            Some(Exp::F(s / vals.len() as f64))
        }
        "min" | "max" => {
            if vals.is_empty() {
                return Some(Exp::Null);
            }
            let mut best = 0;
            for i in 1..vals.len() {
                let o = exp_cmp(&vals[i], &vals[best])?;
                if (name == "min" && o == std::cmp::Ordering::Less) || (name == "max" && o == std::cmp::Ordering::Greater) {
                    best = i;
                }
            }
            Some(vals.swap_remove(best))
        }
        "bool_and" | "bool_or" => {
            if vals.is_empty() {
                return Some(Exp::Null);
            }
            let bs: Vec<bool> = vals.iter().filter_map(|v| if let Exp::Bool(b) = v { Some(*b) } else { None }).collect();
            if bs.len() != vals.len() {
                return None;
            }
            Some(Exp::Bool(if name == "bool_and" { bs.iter().all(|b| *b) } else { bs.iter().any(|b| *b) }))
        }
        "bit_and" | "bit_or" | "bit_xor" => {
            if !t0.is_int() {
                return None;
            }
            if vals.is_empty() {
                return Some(Exp::Null);
            }
            let xs: Vec<i128> = vals.iter().filter_map(|v| if let Exp::Int(x) = v { Some(*x) } else { None }).collect();
            let mut acc = xs[0];
            for x in &xs[1..] {
                acc = match name {
                    "bit_and" => acc & x,
                    "bit_or" => acc | x,
                    _ => acc ^ x,
                };
            }
            Some(Exp::Int(acc))
        }
        _ => None,
    }
}

// ---------------------------------------------------------------------------------------------
// per-function statistics shared between `run` and `extra`

fn stats() -> &'static Mutex<BTreeMap<String, [u64; 3]>> {
    static S: OnceLock<Mutex<BTreeMap<String, [u64; 3]>>> = OnceLock::new();
    S.get_or_init(|| Mutex::new(BTreeMap::new()))
}

fn bump(name: &str, slot: usize) {
    if let Ok(mut m) = stats().lock() {
        m.entry(name.to_string()).or_insert([0; 3])[slot] += 1;
    }
}

// ---------------------------------------------------------------------------------------------

impl Property for C07 {
    type Case = Case;
    fn id(&self) -> &'static str {
        "C07"
    }
    fn sub(&self) -> &'static str {
        "c07"
    }
    fn strategy(&self, tier: Tier) -> BoxedStrategy<Case> {
        case_strategy(tier)
    }
    fn budget(&self, tier: Tier) -> Budget {
        Budget::new(tier.pick(24_000, 1_000_000), tier.pick(8, 16)).min_nontrivial(tier.pick(6_000, 250_000)).discard_cap(0.3)
    }
    fn rule(&self) -> String {
        "function and coerced argument-type vector drawn uniformly from the catalog (all default aggregates minus the sketch quantiles; vectors = planner-coerced fixpoints accepted by create_accumulator); \
         0-24 rows (thorough 0-64) with NULLs, group / partition / filter / order-key per row, random batch cuts, merge order, emit-prefix sequence, state path, convert_to_state tail, sliding window walk; \
         non-trivial = at least one non-NULL argument value and (>= 2 partial states merged or >= 1 EmitTo::First prefix or >= 1 retraction); distinct by case JSON; labels fn=<name> count successful cases per function"
            .into()
    }
    fn assumptions(&self) -> Vec<String> {
        let mut v = vec![
            "excluded by the statement: approx_percentile_cont, approx_percentile_cont_with_weight, approx_median".to_string(),
            "arrow-rs kernels trusted for building inputs (ScalarValue::iter_to_array, cast to dictionary, concat, slice, sort_to_indices)".to_string(),
            "floats restricted to dyadic rationals k/8 (|k| <= 64) and integers to magnitudes whose sums cannot overflow, so exact equality is demanded except for variance/stddev/covariance/correlation/regr_* (relative 1e-9 plus 1e-9 of the data scale; not compared when a denominator is exactly zero)".to_string(),
            "ORDER BY keys are unique and non-NULL (results are then independent of partitioning); without ORDER BY, order-dependent functions (first_value, last_value, array_agg, string_agg, nth_value) are only decomposed into contiguous pieces merged in order".to_string(),
            "any_value only has to return one of the non-NULL inputs; DISTINCT array_agg/string_agg without ORDER BY are compared as multisets".to_string(),
            "a NotImplemented error from create_sliding_accumulator / create_groups_accumulator / state makes that law not applicable".to_string(),
            "Spark-compatible aggregates are outside this crate".to_string(),
        ];
        for (n, why) in UNEVALUABLE {
            v.push(format!("expected unevaluable: {n} ({why})"));
        }
        v
    }

    fn run(&self, case: &Case) -> CaseResult {
        run_case(case)
    }

    fn known_signature(&self, case: &Case) -> Option<String> {
        known_sig(case)
    }

    fn extra(&self, _tier: Tier, _seed: u64) -> Result<Value, (String, Case)> {
        let cat = catalog();
        let st = stats().lock().map(|m| m.clone()).unwrap_or_default();
        let mut per_fn = serde_json::Map::new();
        let mut zero: Vec<String> = vec![];
        for f in cat {
            let s = st.get(&f.name).copied().unwrap_or([0; 3]);
            per_fn.insert(
                f.name.clone(),
                json!({"aliases": f.udaf.aliases(), "candidate_type_vectors": f.candidates, "coerced_distinct": f.coerced, "accepted_type_vectors": f.vectors.len(),
                       "cases_passed": s[0], "cases_discarded": s[1], "laws_checked": s[2]}),
            );
            if s[0] == 0 {
                zero.push(f.name.clone());
            }
        }
        let unexpected: Vec<&String> = zero.iter().filter(|z| !UNEVALUABLE.iter().any(|(n, _)| n == z)).collect();
        if !unexpected.is_empty() {
            // a starved function must never look like a pass: the engine turns a panic here into exit 2
            panic!("functions without a single successful case: {unexpected:?}");
        }
        Ok(json!({"per_function": per_fn, "functions_with_zero_successful_cases": zero, "excluded_functions": EXCLUDED}))
    }
}

/// Order-insensitive aggregates that inherit the default `order_sensitivity()` (HardRequirement): with an
/// ORDER BY clause `AggregateFunctionExpr::order_bys()` is non-empty, the ordering columns are appended to the
/// accumulator arguments, and their `GroupsAccumulator` asserts `values.len() == 1` → panic
/// (`SELECT g, avg(x ORDER BY y) FROM t GROUP BY g`).
const ORDER_BY_PANICS: &[&str] = &["avg", "count", "bit_and", "bit_or", "bit_xor", "var_pop", "var", "stddev", "stddev_pop", "approx_distinct", "corr", "median"];

/// Narrow shapes of genuine defects recorded in /verif/known_findings.json (excluded only while the entry is open).
fn known_sig(case: &Case) -> Option<String> {
    let n = case.rows.len();
    let pts = split_points(&case.cuts, n);
    let has_empty_chunk = n == 0 || pts.first() == Some(&0) || pts.last() == Some(&n) || pts.windows(2).any(|w| w[0] == w[1]);
    match case.func.as_str() {
        // HllGroupsAccumulator::convert_to_state asserts a single value column, but with ORDER BY the
        // aggregate receives the ordering columns too (order_sensitivity() defaults to HardRequirement)
        f if ORDER_BY_PANICS.contains(&f) && case.order.is_some() => Some("order-by-on-order-insensitive-aggregate:groups-accumulator-asserts-single-argument".into()),
        // LastValueAccumulator::get_last_idx: `(!value.is_empty()).then_some(value.len() - 1)` evaluates the
        // subtraction eagerly: overflow panic (debug / overflow-checks builds) on an empty batch (an empty
        // input batch, or a group whose rows of a batch are all filtered out under the GroupsAccumulatorAdapter)
        "last_value" if case.order.as_ref().map(|o| o.presorted).unwrap_or(false) && !case.ignore_nulls && (has_empty_chunk || case.use_filter) => Some("last_value:presorted:empty-batch".into()),
        // PercentileContGroupsAccumulator::convert_to_state asserts one value column, it always gets two
        "percentile_cont" if !case.distinct && case.convert_from.is_some() => Some("percentile_cont:convert_to_state-asserts-single-argument".into()),
        // TrivialNthValueAccumulator::merge_batch keeps the first |n|+1 merged values also for negative n
        "nth_value" if case.order.is_none() && matches!(case.consts.get(1), Some(Some(V::I(n))) if *n < 0) => Some("nth_value:negative-n:no-order-by:merge".into()),
        // BitXorAccumulator cannot return to "no value seen" after retracting
        "bit_xor" if !case.distinct && case.order.is_none() && !case.window.is_empty() && case.rows.iter().any(|r| r.a.iter().any(|v| v.is_null())) => Some("bit_xor:retract:null-only-frame".into()),
        // BitwiseOperation::groups_accumulator_supported ignores is_distinct
        "bit_xor" if case.distinct => Some("bit_xor:distinct:groups-accumulator-ignores-distinct".into()),
        _ => None,
    }
}

fn sort_rows(d: &Data, idx: &mut Vec<usize>) -> Result<(), String> {
    // sort by the ORDER BY of the aggregate
    if d.ctx.by_arg0 {
        let vals: Vec<V> = idx.iter().map(|r| d.case.rows[*r].a.first().cloned().unwrap_or(V::Null)).collect();
        let arr = to_array(&vals, &d.case.types[0])?;
        let perm: UInt32Array = arrow::compute::sort_to_indices(&arr, Some(d.ctx.sort_options), None).map_err(|e| e.to_string())?;
        let old = idx.clone();
        *idx = perm.values().iter().map(|p| old[*p as usize]).collect();
    } else {
        idx.sort_by_key(|r| d.rank[*r]);
        if d.ctx.sort_options.descending {
            idx.reverse();
        }
    }
    Ok(())
}

fn run_case(case: &Case) -> CaseResult {
    let Some(info) = find_fn(&case.func) else { return CaseResult::discard("unknown function") };
    let name = info.name.as_str();
    if case.types.is_empty() || case.rows.iter().any(|r| r.a.len() != case.types.len()) || case.consts.len() != case.types.len() {
        return CaseResult::discard("malformed case");
    }
    let setup = Setup { func: case.func.clone(), types: case.types.clone(), consts: case.consts.clone(), distinct: case.distinct, ignore_nulls: case.ignore_nulls, order: case.order.clone() };
    let _ = &setup.func;
    let ctx = match build_ctx(&info.udaf, &setup) {
        Ok(c) => c,
        Err(e) => {
            bump(name, 1);
            return CaseResult::discard(format!("build rejected: {}", truncate(&e.to_string(), 80))).label(format!("rejected:fn={name}"));
        }
    };
    // unique ranks
    let mut order: Vec<usize> = (0..case.rows.len()).collect();
    order.sort_by_key(|i| (case.rows[*i].key, *i));
    let mut rank = vec![0i64; case.rows.len()];
    for (r, i) in order.iter().enumerate() {
        rank[*i] = r as i64;
    }
    let d = Data { case, ctx: &ctx, rank };

    let mut labels: Vec<String> = vec![];
    // feed order
    let mut feed: Vec<usize> = (0..case.rows.len()).collect();
    if ctx.feed_sorted {
        if let Err(e) = sort_rows(&d, &mut feed) {
            return CaseResult::discard(format!("cannot sort input: {e}"));
        }
        labels.push("input=sorted".into());
    }
    let n = feed.len();
    // may decompositions reorder rows? (order-insensitive function, or ORDER BY with unique keys)
    let by_arg0_ties_ok = true; // ties on the argument itself are equal values
    let free_order = !order_dependent(name) || (ctx.has_order && by_arg0_ties_ok);
    // DISTINCT + order-dependent without ORDER BY: output order unspecified
    let multiset = case.distinct && order_dependent(name) && !ctx.has_order;

    // comparison parameters
    let mut scale = 0f64;
    if tolerance_family(name) {
        let mut m = 1f64;
        for r in &case.rows {
            for v in &r.a {
                match v {
                    V::F(Fl(x)) => m = m.max(x.abs()),
                    V::I(x) => m = m.max((*x as f64).abs()),
                    _ => {}
                }
            }
        }
        scale = m * m * (case.rows.len().max(1) as f64);
    }
    let any_of: Option<Vec<String>> = if name == "any_value" { Some(vec![]) } else { None };
    let cmp = Comparer { case, name, tol: tolerance_family(name), scale, multiset, any_of };

    // expected: one-shot over the feed order
    let expected = match d.one_shot(&feed) {
        Ok(v) => v,
        Err(Fail::NotImpl(e)) => {
            bump(name, 1);
            return CaseResult::discard(format!("one-shot not implemented: {}", truncate(&e, 60))).label(format!("rejected:fn={name}"));
        }
        Err(Fail::Err(e)) => {
            bump(name, 1);
            return CaseResult::discard(format!("one-shot failed: {}", truncate(&e, 60))).label(format!("one-shot-error:fn={name}"));
        }
    };
    let mut laws = 0u64;
    macro_rules! violation {
        ($($arg:tt)*) => {
            return CaseResult::violation(format!("{}({}){}{}{}: {}", name, case.types.iter().map(|t| t.short()).collect::<Vec<_>>().join(","),
                if case.distinct { " DISTINCT" } else { "" }, if case.ignore_nulls { " IGNORE NULLS" } else { "" },
                match &case.order { Some(o) if ctx.has_order => format!(" ORDER BY {} {}{}", if o.by_arg0 { "arg0" } else { "key" }, if o.desc { "DESC" } else { "ASC" }, if ctx.feed_sorted { " (sorted input)" } else { "" }), _ => String::new() },
                format!($($arg)*))).labels(labels.clone())
        };
    }
    let non_null_inputs = |idx: &[usize]| -> Vec<String> {
        let vals: Vec<V> = idx.iter().map(|r| case.rows[*r].a[0].clone()).filter(|v| !v.is_null()).collect();
        match to_array(&vals, &case.types[0]) {
            Ok(a) => render_all(a.as_ref()),
            Err(_) => vec![],
        }
    };
    if name == "any_value" {
        if let Err(e) = cmp.member(&expected, &non_null_inputs(&feed), "one-shot") {
            violation!("{e}");
        }
    }

    // ---- L5 reference
    if !ctx.has_order || !order_dependent(name) {
        if let Some(exp) = reference(case, &feed) {
            match exp_of_scalar(&expected) {
                Some(got) => {
                    let ok = match (&exp, &got) {
                        (Exp::F(a), Exp::F(b)) => a.to_bits() == b.to_bits() || (*a == 0.0 && *b == 0.0),
                        (a, b) => a == b,
                    };
                    if !ok {
                        violation!("L5 reference: own definition gives {exp:?}, one-shot accumulator gives {got:?} ({expected:?})");
                    }
                    laws += 1;
                    labels.push("law:reference".into());
                }
                None => labels.push("reference:result-type-not-modelled".into()),
            }
        }
    }

    // ---- L1 split
    let pts = split_points(&case.cuts, n);
    {
        let r: Result<ScalarValue, Fail> = (|| {
            let mut acc = ctx.expr.create_accumulator().map_err(classify)?;
            for ch in chunks(&feed, &pts) {
                let arrays = d.arrays(ch).map_err(Fail::Err)?;
                acc.update_batch(&arrays).map_err(classify)?;
            }
            acc.evaluate().map_err(classify)
        })();
        match r {
            Ok(v) => {
                if name == "any_value" {
                    if let Err(e) = cmp.member(&v, &non_null_inputs(&feed), "split") {
                        violation!("{e}");
                    }
                } else if let Err(e) = cmp.same(&feed, &expected, &v) {
                    violation!("L1 split at {pts:?} of {n} rows: {e}");
                }
                laws += 1;
                if !pts.is_empty() {
                    labels.push("law:split".into());
                }
            }
            Err(Fail::NotImpl(e)) => labels.push(format!("split-n/a:{}", truncate(&e, 40))),
            Err(Fail::Err(e)) => violation!("L1 split at {pts:?}: one-shot succeeded but the split accumulation failed: {e}"),
        }
    }

    // ---- L2 merge
    let parts = case.parts.clamp(1, 4) as usize;
    let mut merged_states = 0usize;
    {
        // partition assignment
        let mut partitions: Vec<Vec<usize>> = vec![vec![]; parts];
        if free_order {
            for r in &feed {
                partitions[(case.rows[*r].p as usize).min(parts - 1)].push(*r);
            }
        } else {
            let ppts: Vec<usize> = {
                let mut v: Vec<usize> = case.merge_perm.iter().take(parts - 1).map(|c| pick_index(*c, n + 1)).collect();
                v.sort();
                v
            };
            for (i, ch) in chunks(&feed, &ppts).into_iter().enumerate() {
                partitions[i] = ch.to_vec();
            }
        }
        let mut porder: Vec<usize> = (0..parts).collect();
        if free_order {
            porder.sort_by_key(|i| (case.merge_perm.get(*i).copied().unwrap_or(0), *i));
        }
        let state_mismatch = std::cell::Cell::new(false);
        let r: Result<Option<ScalarValue>, Fail> = (|| {
            let state_fields = ctx.expr.state_fields().map_err(classify)?;
            let mut state_rows: Vec<Vec<ArrayRef>> = vec![];
            for pi in &porder {
                let rows = &partitions[*pi];
                let mut acc = ctx.expr.create_accumulator().map_err(classify)?;
                if !rows.is_empty() {
                    // two batches when possible
                    let mid = rows.len() / 2;
                    for ch in [&rows[..mid], &rows[mid..]] {
                        if ch.is_empty() {
                            continue;
                        }
                        let arrays = d.arrays(ch).map_err(Fail::Err)?;
                        acc.update_batch(&arrays).map_err(classify)?;
                    }
                }
                let st = acc.state().map_err(classify)?;
                // state()/state_fields() agreement is a rustdoc contract, not part of the property statement:
                // a mismatch is only labelled (see header, "outside the statement")
                if st.len() != state_fields.len() {
                    state_mismatch.set(true);
                }
                let mut row = vec![];
                for (k, sv) in st.iter().enumerate() {
                    let a = sv.to_array().map_err(classify)?;
                    if state_fields.get(k).map(|f| f.data_type() != a.data_type()).unwrap_or(false) {
                        state_mismatch.set(true);
                    }
                    row.push(a);
                }
                state_rows.push(row);
            }
            let mut fin = ctx.final_expr.create_accumulator().map_err(classify)?;
            let chunk = case.merge_chunk.clamp(1, 4) as usize;
            for group in state_rows.chunks(chunk) {
                let mut cols: Vec<ArrayRef> = vec![];
                for c in 0..group[0].len() {
                    let parts: Vec<&dyn Array> = group.iter().map(|r| r[c].as_ref()).collect();
                    cols.push(arrow::compute::concat(&parts).map_err(|e| Fail::Err(format!("concat of state arrays: {e}")))?);
                }
                fin.merge_batch(&cols).map_err(classify)?;
            }
            Ok(Some(fin.evaluate().map_err(classify)?))
        })();
        match r {
            Ok(Some(v)) => {
                if name == "any_value" {
                    if let Err(e) = cmp.member(&v, &non_null_inputs(&feed), "merge") {
                        violation!("{e}");
                    }
                } else if let Err(e) = cmp.same(&feed, &expected, &v) {
                    violation!("L2 merge of {parts} partial states (sizes {:?}, merge order {porder:?}, {} per merge_batch): {e}", partitions.iter().map(|p| p.len()).collect::<Vec<_>>(), case.merge_chunk.clamp(1, 4));
                }
                laws += 1;
                if state_mismatch.get() {
                    labels.push(format!("state-differs-from-state_fields:fn={name}"));
                }
                merged_states = parts;
                labels.push(format!("law:merge parts={parts}"));
            }
            Ok(None) => {}
            Err(Fail::NotImpl(e)) => labels.push(format!("merge-n/a:{}", truncate(&e, 40))),
            Err(Fail::Err(e)) => violation!("L2 merge of {parts} partial states: {e}"),
        }
    }

    // ---- L3 groups
    let mut emit_prefixes = 0usize;
    {
        let r = law_groups(&d, &feed, &pts, &cmp, free_order, &mut labels, &mut emit_prefixes);
        match r {
            Ok(true) => laws += 1,
            Ok(false) => {}
            Err(Fail::NotImpl(e)) => labels.push(format!("groups-n/a:{}", truncate(&e, 40))),
            Err(Fail::Err(e)) => violation!("L3 groups: {e}"),
        }
    }

    // ---- L4 retract
    let mut retractions = 0usize;
    if !ctx.has_order && case.order.is_none() {
        match ctx.expr.create_sliding_accumulator() {
            Err(_) => labels.push("retract-n/a".into()),
            Ok(mut acc) => {
                let (mut lo, mut hi) = (0usize, 0usize);
                let r: Result<(), Fail> = (|| {
                    for (dlo, dhi) in &case.window {
                        let nhi = (hi + *dhi as usize).min(n);
                        let nlo = (lo + *dlo as usize).min(nhi);
                        if nlo == nhi {
                            // empty frame: the caller only retracts what was in the last frame
                            if hi > lo {
                                let arrays = d.arrays(&feed[lo..hi]).map_err(Fail::Err)?;
                                acc.retract_batch(&arrays).map_err(classify)?;
                                retractions += 1;
                            }
                            // rows between hi and nhi never enter
                            lo = nlo;
                            hi = nhi;
                            continue;
                        }
                        if nhi > hi {
                            let arrays = d.arrays(&feed[hi..nhi]).map_err(Fail::Err)?;
                            acc.update_batch(&arrays).map_err(classify)?;
                        }
                        if nlo > lo {
                            let arrays = d.arrays(&feed[lo..nlo]).map_err(Fail::Err)?;
                            acc.retract_batch(&arrays).map_err(classify)?;
                            retractions += 1;
                        }
                        lo = nlo;
                        hi = nhi;
                        let got = acc.evaluate().map_err(classify)?;
                        let want = d.one_shot(&feed[lo..hi])?;
                        if name == "any_value" {
                            cmp.member(&got, &non_null_inputs(&feed[lo..hi]), "sliding").map_err(Fail::Err)?;
                        } else {
                            cmp.same(&feed[lo..hi], &want, &got).map_err(|e| Fail::Err(format!("frame [{lo},{hi}) after walk {:?}: {e}", case.window)))?;
                        }
                    }
                    Ok(())
                })();
                match r {
                    Ok(()) => {
                        if retractions > 0 {
                            laws += 1;
                            labels.push("law:retract".into());
                        }
                    }
                    Err(Fail::NotImpl(e)) => labels.push(format!("retract-n/a:{}", truncate(&e, 40))),
                    Err(Fail::Err(e)) => violation!("L4 retract: {e}"),
                }
            }
        }
    }

    let has_non_null = case.rows.iter().any(|r| r.a.iter().zip(case.consts.iter()).any(|(v, c)| c.is_none() && !v.is_null()));
    let nt = has_non_null && (merged_states >= 2 || emit_prefixes >= 1 || retractions >= 1);
    bump(name, 0);
    if let Ok(mut m) = stats().lock() {
        m.entry(name.to_string()).or_insert([0; 3])[2] += laws;
    }
    labels.push(format!("fn={name}"));
    labels.push(format!("type={}", case.types[0].short()));
    if case.distinct {
        labels.push("distinct".into());
    }
    if case.ignore_nulls {
        labels.push("ignore-nulls".into());
    }
    if ctx.has_order {
        labels.push(if ctx.by_arg0 { "order-by=arg0" } else { "order-by=key" }.into());
    }
    if case.rows.is_empty() {
        labels.push("rows=0".into());
    }
    CaseResult::pass().nontrivial(nt).labels(labels)
}

/// L3. Returns Ok(true) when at least one comparison was made.
fn law_groups(d: &Data, feed: &[usize], pts: &[usize], cmp: &Comparer, free_order: bool, labels: &mut Vec<String>, emit_prefixes: &mut usize) -> Result<bool, Fail> {
    let case = d.case;
    let ctx = d.ctx;
    let _ = free_order;
    let native = ctx.expr.groups_accumulator_supported();
    let make = || -> Result<Box<dyn GroupsAccumulator>, Fail> {
        if native {
            ctx.expr.create_groups_accumulator().map_err(classify)
        } else {
            let e = ctx.expr.clone();
            // what `create_group_accumulator` of the hash aggregate does
            let factory = move || e.create_accumulator();
            Ok(Box::new(GroupsAccumulatorAdapter::new(factory)))
        }
    };
    let mut ga = make()?;
    labels.push(if native { "groups=native".into() } else { "groups=adapter".into() });
    let via_state = case.via_state || case.convert_from.is_some();
    // live segments: logical group id + rows seen (all rows, filter applied later)
    let mut live: Vec<(u8, Vec<usize>)> = vec![];
    // collected state rows: (logical group, columns with one row each)
    let mut collected: Vec<(u8, Vec<ArrayRef>)> = vec![];
    // rows that reached the second accumulator, per logical group, in order
    let mut compared = false;
    let mut converting = false;
    let batches = chunks(feed, pts);

    let scalar_of = |rows: &[usize]| -> Result<ScalarValue, Fail> {
        let kept: Vec<usize> = rows.iter().copied().filter(|r| d.kept(*r)).collect();
        d.one_shot(&kept)
    };
    let kept_rows = |rows: &[usize]| -> Vec<usize> { rows.iter().copied().filter(|r| d.kept(*r)).collect() };
    let non_null_kept = |rows: &[usize]| -> Vec<String> {
        let vals: Vec<V> = rows.iter().filter(|r| d.kept(**r)).map(|r| case.rows[*r].a[0].clone()).filter(|v| !v.is_null()).collect();
        match to_array(&vals, &case.types[0]) {
            Ok(a) => render_all(a.as_ref()),
            Err(_) => vec![],
        }
    };

    // emit helper
    let mut emit = |ga: &mut Box<dyn GroupsAccumulator>, live: &mut Vec<(u8, Vec<usize>)>, collected: &mut Vec<(u8, Vec<ArrayRef>)>, n: usize, all: bool, compared: &mut bool| -> Result<(), Fail> {
        let emit_to = if all { EmitTo::All } else { EmitTo::First(n) };
        if via_state {
            let st = ga.state(emit_to).map_err(classify)?;
            for c in &st {
                if c.len() != n {
                    return Err(Fail::Err(format!("state({emit_to:?}) returned a column of {} rows for {n} groups", c.len())));
                }
            }
            for (j, (g, _)) in live.iter().take(n).enumerate() {
                collected.push((*g, st.iter().map(|c| c.slice(j, 1)).collect()));
            }
        } else {
            let out = ga.evaluate(emit_to).map_err(classify)?;
            if out.len() != n {
                return Err(Fail::Err(format!("evaluate({emit_to:?}) returned {} rows for {n} groups", out.len())));
            }
            for (j, (g, rows)) in live.iter().take(n).enumerate() {
                let got = ScalarValue::try_from_array(&out, j).map_err(classify)?;
                if cmp.any_of.is_some() {
                    cmp.member(&got, &non_null_kept(rows), "groups").map_err(Fail::Err)?;
                } else {
                    let want = scalar_of(rows)?;
                    cmp.same(&kept_rows(rows), &want, &got).map_err(|e| Fail::Err(format!("group {g} (index {j} of {emit_to:?}, {} rows seen, filter={}): {e}", rows.len(), case.use_filter)))?;
                }
                *compared = true;
            }
        }
        live.drain(..n);
        Ok(())
    };

    for (bi, batch) in batches.iter().enumerate() {
        if let Some(c) = case.convert_from {
            if !converting && bi >= c as usize {
                converting = true;
                labels.push("law:convert_to_state".into());
                if !live.is_empty() {
                    let n = live.len();
                    emit(&mut ga, &mut live, &mut collected, n, true, &mut compared)?;
                }
            }
        }
        if batch.is_empty() && converting {
            continue;
        }
        let arrays = d.arrays(batch).map_err(Fail::Err)?;
        let filter = d.filter(batch);
        if converting {
            let st = ga.convert_to_state(&arrays, filter.as_ref()).map_err(classify)?;
            for c in &st {
                if c.len() != batch.len() {
                    return Err(Fail::Err(format!("convert_to_state returned a column of {} rows for {} input rows", c.len(), batch.len())));
                }
            }
            for (j, r) in batch.iter().enumerate() {
                collected.push((case.rows[*r].g, st.iter().map(|c| c.slice(j, 1)).collect()));
            }
            continue;
        }
        let mut indices = Vec::with_capacity(batch.len());
        for r in batch.iter() {
            let g = case.rows[*r].g;
            let pos = match live.iter().position(|(lg, _)| *lg == g) {
                Some(p) => p,
                None => {
                    live.push((g, vec![]));
                    live.len() - 1
                }
            };
            live[pos].1.push(*r);
            indices.push(pos);
        }
        if live.is_empty() {
            continue;
        }
        ga.update_batch(&arrays, &indices, filter.as_ref(), live.len()).map_err(classify)?;
        let choice = case.emits.get(bi).copied().unwrap_or(0);
        let nemit = pick_index(choice, live.len() + 1);
        if nemit >= 1 && bi + 1 < batches.len() {
            emit(&mut ga, &mut live, &mut collected, nemit, false, &mut compared)?;
            *emit_prefixes += 1;
        }
    }
    if !live.is_empty() {
        let n = live.len();
        emit(&mut ga, &mut live, &mut collected, n, true, &mut compared)?;
    }
    if *emit_prefixes > 0 {
        labels.push("law:emit-first".into());
    }
    if case.use_filter {
        labels.push("groups:filter".into());
    }
    if via_state && !collected.is_empty() {
        let mut ga2: Box<dyn GroupsAccumulator> = if ctx.final_expr.groups_accumulator_supported() {
            ctx.final_expr.create_groups_accumulator().map_err(classify)?
        } else {
            let e = ctx.final_expr.clone();
            Box::new(GroupsAccumulatorAdapter::new(move || e.create_accumulator()))
        };
        let mut logical: Vec<u8> = vec![];
        let mut indices: Vec<usize> = vec![];
        for (g, _) in &collected {
            let pos = match logical.iter().position(|x| x == g) {
                Some(p) => p,
                None => {
                    logical.push(*g);
                    logical.len() - 1
                }
            };
            indices.push(pos);
        }
        let ncols = collected[0].1.len();
        // one or two merge_batch calls
        let mid = if case.merge_chunk % 2 == 0 { collected.len() / 2 } else { collected.len() };
        let mut seen_groups = 0usize;
        for range in [0..mid, mid..collected.len()] {
            if range.is_empty() {
                continue;
            }
            let mut cols: Vec<ArrayRef> = vec![];
            for c in 0..ncols {
                let parts: Vec<&dyn Array> = collected[range.clone()].iter().map(|(_, r)| r[c].as_ref()).collect();
                cols.push(arrow::compute::concat(&parts).map_err(|e| Fail::Err(format!("concat of state arrays: {e}")))?);
            }
            let idx = &indices[range.clone()];
            seen_groups = seen_groups.max(idx.iter().copied().max().unwrap_or(0) + 1);
            ga2.merge_batch(&cols, idx, seen_groups).map_err(classify)?;
        }
        let out = ga2.evaluate(EmitTo::All).map_err(classify)?;
        if out.len() != logical.len() {
            return Err(Fail::Err(format!("final evaluate returned {} rows for {} groups", out.len(), logical.len())));
        }
        for (j, g) in logical.iter().enumerate() {
            let rows: Vec<usize> = feed.iter().copied().filter(|r| case.rows[*r].g == *g).collect();
            let got = ScalarValue::try_from_array(&out, j).map_err(classify)?;
            if cmp.any_of.is_some() {
                cmp.member(&got, &non_null_kept(&rows), "groups via state").map_err(Fail::Err)?;
            } else {
                let want = scalar_of(&rows)?;
                cmp.same(&kept_rows(&rows), &want, &got).map_err(|e| Fail::Err(format!("group {g} after state()/convert_to_state → merge_batch of {} state rows (filter={}): {e}", collected.len(), case.use_filter)))?;
            }
            compared = true;
        }
        labels.push("law:groups-state-merge".into());
    }
    if compared {
        labels.push("law:groups".into());
    }
    Ok(compared)
}
