//! vf-fn: properties about the function libraries (aggregate state laws, scalar function representations).
mod c07;
mod c32;
mod vals;

fn main() {
    vf_kit::dispatch! {
        "c07" => c07::C07,
        "c32" => c32::C32,
        "c30fn" => c32::C30Fn,
    }
}
