#!/bin/bash
# Runs inside `tools/mutrun harness/crates/vf-ffi/probes/probes.diff -- bash harness/crates/vf-ffi/probes/run-probes.sh [mutations...]`:
# one build of the patched tree, then one quick run of the relevant sub-command per mutation (VF_MUT selects it).
# Appends one verdict line per mutation to probes.log next to this script.
cd /verif/harness && cargo build --offline --quiet -p vf-ffi 2>&1 | tail -5
BIN=${CARGO_TARGET_DIR:-/verif/harness/target}/debug/vf-ffi
LOG=/verif/harness/crates/vf-ffi/probes/probes.log
cd /verif
sub_of() {
  case "$1" in
    p1|p2|p11|p12) echo c45a ;;
    p6|p7|p8|p14) echo c45b ;;
    p9|p10) echo c45w ;;
    *) echo c45c ;;
  esac
}
MUTS=${*:-p0 p1 p2 p3 p4 p5 p6 p7 p8 p9 p10 p11 p12 p13 p14 p15 p16 p17 p18}
for m in $MUTS; do
  sub=$(sub_of "$m")
  out=$(VF_MUT=$m VERIF_ROOT=/verif timeout 900 "$BIN" "$sub" quick 2>&1)
  code=$?
  msg=$(echo "$out" | grep -m1 "^FAIL" | cut -c1-420)
  echo "$(date -u +%FT%TZ) VF_MUT=$m sub=$sub exit=$code :: ${msg:-$(echo "$out" | tail -1 | cut -c1-200)}" | tee -a "$LOG"
done
