//! vf-ffi — property C45 (components passed through the foreign-function interface behave as native).
//! Sub-commands: `c45a` scalar UDFs, `c45b` aggregate + window UDFs, `c45c` table providers / table
//! functions / execution plans / record batch streams under generated SQL.
mod c45a;
mod c45b;
mod c45c;
mod c45w;
mod fx;
mod vals;

/// The marker every `FFI_*` struct of datafusion-ffi carries is the address of a static inside that crate.
/// Any other address makes `Foreign*::from` treat the struct as coming from another library.
pub extern "C" fn harness_marker() -> usize {
    static HARNESS_MARKER: u8 = 0;
    std::ptr::from_ref::<u8>(&HARNESS_MARKER) as usize
}

pub const FOREIGN_MARKER_NOTE: &str = "same technique as datafusion-ffi's own unit tests (mock_foreign_marker_id)";

/// Agreement of the planner's coercion through the native signature and through the FFI's `user_defined`
/// signature (`coerce_types` → FFI → native `fields_with_udf`). For a user-defined signature the planner
/// additionally checks that arrow can cast every argument to its coerced type
/// (`maybe_data_types_without_coercion`); legacy native signatures skip that check and fail later, when the
/// cast is built. So `native Ok / foreign Err` is accepted exactly when some argument is not castable to the
/// native answer; every other disagreement is reported.
pub fn coercion_agree(native: &Result<Vec<arrow::datatypes::DataType>, String>, foreign: &Result<Vec<arrow::datatypes::DataType>, String>, raw: &[arrow::datatypes::DataType]) -> Result<&'static str, String> {
    match (native, foreign) {
        (Ok(x), Ok(y)) if x == y => Ok("ok"),
        (Err(_), Err(_)) => Ok("both-reject"),
        (Ok(x), Err(_)) if x.len() == raw.len() && x.iter().zip(raw.iter()).any(|(to, from)| from != to && !arrow::compute::can_cast_types(from, to)) => Ok("native-accepts-uncastable"),
        _ => Err(format!("native {native:?} foreign {foreign:?}")),
    }
}

/// Run a NATIVE call with panic capture. A panic of the native component is not an FFI matter (and the same
/// panic inside an `extern "C"` entry point would abort the process), so callers stop comparing when the native
/// side panics and label the case instead.
pub fn guard<T>(f: impl FnOnce() -> T) -> Result<T, String> {
    let was = IN_FOREIGN.with(|x| x.replace(false));
    let r = std::panic::catch_unwind(std::panic::AssertUnwindSafe(f));
    IN_FOREIGN.with(|x| x.set(was));
    match r {
        Ok(v) => Ok(v),
        Err(p) => Err(if let Some(s) = p.downcast_ref::<&str>() {
            s.to_string()
        } else if let Some(s) = p.downcast_ref::<String>() {
            s.clone()
        } else {
            "<panic>".to_string()
        }),
    }
}

thread_local! {
    static CURRENT_CASE: std::cell::RefCell<Option<(String, String)>> = const { std::cell::RefCell::new(None) };
    static IN_FOREIGN: std::cell::Cell<bool> = const { std::cell::Cell::new(false) };
}

/// Remember the case a shard thread is working on. A panic raised while a FOREIGN call is in flight happens
/// inside an `extern "C"` entry point of datafusion-ffi and aborts the process before the engine can save
/// anything: the chained panic hook below writes the case to /verif/replays/<sub>-foreign-abort-<hash>.json
/// (and stderr) first, so the abort is reproducible with `--replay`.
pub fn set_current_case<C: serde::Serialize>(sub: &str, case: &C) {
    static HOOK: std::sync::Once = std::sync::Once::new();
    HOOK.call_once(|| {
        let prev = std::panic::take_hook();
        std::panic::set_hook(Box::new(move |info| {
            if IN_FOREIGN.with(|f| f.get()) {
                if let Some((sub, json)) = CURRENT_CASE.with(|c| c.borrow().clone()) {
                    let path = vf_kit::engine::verif_root().join("replays").join(format!("{sub}-foreign-abort-{:016x}.json", vf_kit::engine::fnv1a(json.as_bytes())));
                    let _ = std::fs::create_dir_all(path.parent().unwrap_or(std::path::Path::new(".")));
                    let _ = std::fs::write(&path, &json);
                    eprintln!("FOREIGN-PANIC sub={sub}: {info}\n  case saved to {}", path.display());
                }
            }
            prev(info);
        }));
    });
    let json = serde_json::to_string_pretty(case).unwrap_or_default();
    CURRENT_CASE.with(|c| *c.borrow_mut() = Some((sub.to_string(), json)));
}

/// run a call that crosses the FFI (see `set_current_case`)
pub fn foreign<T>(f: impl FnOnce() -> T) -> T {
    IN_FOREIGN.with(|x| x.set(true));
    let r = f();
    IN_FOREIGN.with(|x| x.set(false));
    r
}

fn main() {
    vf_kit::dispatch! {
        "c45a" => c45a::C45a,
        "c45b" => c45b::C45b,
        "c45w" => c45w::C45w,
        "c45c" => c45c::C45c,
    }
}
