//! vf-ffi — property C45 (components passed through the foreign-function interface behave as native).
//! Sub-commands: `c45a` scalar UDFs, `c45b` aggregate + window UDFs, `c45c` table providers / table
//! functions / execution plans / record batch streams under generated SQL.
mod c45a;
mod c45b;
mod c45c;
mod c45w;
mod fx;
mod vals;

/// The marker every `FFI_*` struct of datafusion-ffi carries is the address of a static inside that crate.
/// Any other address makes `Foreign*::from` treat the struct as coming from another library.
pub extern "C" fn harness_marker() -> usize {
    static HARNESS_MARKER: u8 = 0;
    std::ptr::from_ref::<u8>(&HARNESS_MARKER) as usize
}

pub const FOREIGN_MARKER_NOTE: &str = "same technique as datafusion-ffi's own unit tests (mock_foreign_marker_id)";

fn main() {
    vf_kit::dispatch! {
        "c45a" => c45a::C45a,
        "c45b" => c45b::C45b,
        "c45w" => c45w::C45w,
        "c45c" => c45c::C45c,
    }
}
