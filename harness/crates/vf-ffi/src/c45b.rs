//! C45 part b — aggregate UDFs wrapped as `FFI_AggregateUDF` (and their accumulators as `FFI_Accumulator` /
//! `FFI_GroupsAccumulator`) used through the foreign path behave as native.
//!
//! Domain: every `AggregateUDF` of `all_default_aggregate_functions()` (39, sketches included — the check is
//! differential, both sides see identical call sequences). Argument type vectors: fixpoints of the planner's
//! coercion for which the native function creates an accumulator; literal-only arguments (`nth_value` n,
//! `string_agg` delimiter, `percentile_cont` / `approx_percentile_cont*` percentile and centroids) are
//! physical `Literal`s. Variants: DISTINCT, IGNORE NULLS, ORDER BY a separate Int64 key column (only for the
//! order-dependent functions first_value / last_value / array_agg / string_agg / nth_value — ORDER BY on
//! order-insensitive aggregates hits known C07 findings unrelated to the FFI).
//!
//! Three objects are driven with the same call tape and compared after every observable step:
//!   N  the native accumulator (`udaf.accumulator(args)`),
//!   U  the accumulator obtained through `ForeignAggregateUDF::accumulator` (marker of the UDAF overridden;
//!      the `AccumulatorArgs` travel as `FFI_AccumulatorArgs`: fields, schema, flags, ORDER BY and argument
//!      expressions as `FFI_PhysicalExpr`),
//!   F  a forced-foreign accumulator: the raw `FFI_Accumulator` returned by the struct's `accumulator` entry
//!      with ITS `library_marker_id` overridden too, so `Box<dyn Accumulator>::from` yields a
//!      `ForeignAccumulator` (values as Arrow C arrays, results / states as protobuf `ScalarValue`s).
//! Tape per case (protocol-conforming: `evaluate` / `state` are terminal for plain accumulators):
//!   plain     update_batch over row slices (+ optional merge_batch of the `state()` of a helper accumulator),
//!             then `evaluate()` or `state()`, plus `size()`;
//!   sliding   (`create_sliding_accumulator`, when `supports_retract_batch`): frames [s,e) with non-decreasing
//!             bounds, update entering rows, retract leaving rows, `evaluate()` on every non-empty frame;
//!   groups    (`create_groups_accumulator` when `groups_accumulator_supported`): update_batch with group
//!             indices and an optional nullable filter, merge_batch of a helper's `state(EmitTo::All)`,
//!             `evaluate` / `state` with `EmitTo::First(n)` then `EmitTo::All`, `convert_to_state`, `size()`.
//! Metadata compared natively vs. through `ForeignAggregateUDF`: name, aliases, volatility, `is_nullable`,
//! `return_field`, `state_fields` (ORDER BY fields travel as protobuf), `groups_accumulator_supported`,
//! `order_sensitivity`, `supports_null_handling_clause`, coercion (`fields_with_udf`), `supports_retract_batch`.
//! Errors: a step fails on the foreign side iff it fails natively (texts are not compared).
//!
//! Soundness: DISTINCT states / DISTINCT array_agg / string_agg results without ORDER BY come out of hash
//! sets whose iteration order differs between two accumulator instances: lists are compared as multisets
//! there (label `multiset-compare`). `simplify` is not carried and not compared. `size()` is called but not compared: its value depends on the buffer
//! capacities of whatever arrays each accumulator holds (arrays imported over the C data interface report
//! exact lengths), e.g. first_value(struct) after merge_batch: native 592 bytes, foreign 412.
//!
//! Non-trivial: at least one native evaluate/state produced a non-NULL value that was compared with F.
//!
//! GENUINE FINDING `udaf-default-value-not-carried` (open in /verif/known_findings.json; cases
//! regressions/C45/c45b/ and regressions/C45/c45c/; repair fixes/C45-ffi-udaf-default-value.diff):
//! `FFI_AggregateUDF` has no entry for `AggregateUDFImpl::default_value`; `ForeignAggregateUDF` answers NULL
//! where count / regr_count / approx_distinct answer 0. The optimizer substitutes that value when it
//! decorrelates a scalar subquery, so a foreign `count` in `WHERE x <> (SELECT count(*) .. correlated)` gives
//! wrong rows (found by c45c). The comparison is made for every case; its violation is raised last and matched
//! by `known_signature`, so the affected functions keep their accumulator coverage.
//! Native panics (avg(Duration) over an empty group divides by zero in the groups accumulator) end the
//! affected section with a `native-panic:` label before the foreign object is called.
//!
//! Sensitivity probes (probes/probes.diff via tools/mutrun, quick tier):
//!  p6  provider-side merge_batch calls update_batch   → the native accumulator panics inside the extern "C" entry:
//!      process abort (exit 134; `./check` reports exit 2, not a violation) — detected as a crash, not as a verdict
//!  p7  ForeignGroupsAccumulator drops the filter       → VIOLATION "approx_distinct(..): groups state(All): .."
//!  p8  FFI_EmitTo::First(n) converted to All           → VIOLATION "avg(Dec(25,4)): groups state(First(3)): .."
//!  p14 ForeignAggregateUDF::state_fields drops DISTINCT → VIOLATION "bit_xor(DISTINCT I8): state_fields: .."
use crate::vals::*;
use crate::{FOREIGN_MARKER_NOTE, harness_marker};
use arrow::array::{Array, ArrayRef, BooleanArray, Int64Array};
use arrow::compute::SortOptions;
use arrow::datatypes::{DataType, Field, FieldRef, Schema};
use datafusion::common::{DataFusionError, ScalarValue};
use datafusion::logical_expr::function::{AccumulatorArgs, StateFieldsArgs};
use datafusion::logical_expr::type_coercion::functions::fields_with_udf;
use datafusion::logical_expr::utils::AggregateOrderSensitivity;
use datafusion::logical_expr::{Accumulator, AggregateUDF, AggregateUDFImpl, EmitTo, GroupsAccumulator, TypeSignature};
use datafusion::physical_expr::expressions::{Column, Literal};
use datafusion::physical_expr::{PhysicalExpr, PhysicalSortExpr};
use datafusion_ffi::udaf::{FFI_AggregateUDF, ForeignAggregateUDF};
use proptest::prelude::*;
use serde::{Deserialize, Serialize};
use serde_json::{Value, json};
use std::collections::BTreeMap;
use std::sync::{Arc, Mutex, OnceLock};
use vf_kit::engine::*;

pub struct C45b;

#[derive(Clone, Debug, Serialize, Deserialize)]
pub struct Case {
    pub func: String,
    pub types: Vec<Ty>,
    /// `Some(v)`: this argument is a literal
    pub consts: Vec<Option<V>>,
    pub distinct: bool,
    pub ignore_nulls: bool,
    /// ORDER BY key column: (descending, nulls_first)
    pub order: Option<(bool, bool)>,
    /// row-major argument values (literal positions hold a placeholder)
    pub rows: Vec<Vec<V>>,
    /// ORDER BY key per row
    pub keys: Vec<i64>,
    /// group per row (groups accumulator)
    pub groups: Vec<u8>,
    /// filter per row: Some(true) keep, Some(false) drop, None NULL
    pub filter: Vec<Option<bool>>,
    pub use_filter: bool,
    /// batch boundaries (fractions of the row count)
    pub cuts: Vec<u16>,
    /// fraction of the rows that goes through a helper accumulator and merge_batch
    pub merge_from: Option<u16>,
    /// terminal call of the plain accumulator: evaluate (false) or state (true)
    pub end_with_state: bool,
    /// sliding frames: (advance of start, advance of end) pairs
    pub frames: Vec<(u8, u8)>,
    /// groups: emit First(n) once before the final emit (fraction of the group count)
    pub emit_first: Option<u16>,
    pub groups_end_with_state: bool,
}

pub struct FnInfo {
    pub name: String,
    pub udaf: Arc<AggregateUDF>,
    pub vectors: Vec<Vec<Ty>>,
}

fn literal_positions(name: &str) -> &'static [usize] {
    match name {
        "nth_value" | "string_agg" | "percentile_cont" => &[1],
        "approx_percentile_cont" => &[1, 2],
        "approx_percentile_cont_with_weight" => &[2, 3],
        _ => &[],
    }
}

fn order_dependent(name: &str) -> bool {
    matches!(name, "first_value" | "last_value" | "array_agg" | "string_agg" | "nth_value")
}

fn type_pool() -> Vec<Ty> {
    vec![
        Ty::I8,
        Ty::I32,
        Ty::I64,
        Ty::U8,
        Ty::U32,
        Ty::U64,
        Ty::F32,
        Ty::F64,
        Ty::Dec(10, 2),
        Ty::Dec(25, 4),
        Ty::Utf8,
        Ty::LargeUtf8,
        Ty::Utf8View,
        Ty::Binary,
        Ty::Bool,
        Ty::Date32,
        Ty::Ts(3, None),
        Ty::Ts(1, Some("+01:00".into())),
        Ty::Dur(3),
        Ty::Time64Ns,
        Ty::List(Box::new(Ty::I32)),
        Ty::Struct(vec![("a".into(), Ty::I32), ("b".into(), Ty::Utf8)]),
        Ty::Dict(false, Box::new(Ty::Utf8)),
        Ty::Null,
    ]
}

fn arities(sig: &TypeSignature, out: &mut Vec<usize>) {
    match sig {
        TypeSignature::Exact(v) => out.push(v.len()),
        TypeSignature::Uniform(n, _) | TypeSignature::Numeric(n) | TypeSignature::String(n) | TypeSignature::Comparable(n) | TypeSignature::Any(n) => out.push(*n),
        TypeSignature::Coercible(v) => out.push(v.len()),
        TypeSignature::Nullary => out.push(0),
        TypeSignature::Variadic(_) | TypeSignature::VariadicAny => out.extend([1, 2]),
        TypeSignature::UserDefined => out.extend([1, 2]),
        TypeSignature::OneOf(sigs) => {
            for s in sigs {
                arities(s, out)
            }
        }
        TypeSignature::ArraySignature(_) => out.push(1),
    }
}

fn fields_of(types: &[Ty]) -> Vec<FieldRef> {
    types.iter().enumerate().map(|(i, t)| Arc::new(Field::new(format!("a{i}"), t.dt(), true))).collect()
}

fn default_const(name: &str, pos: usize, t: &Ty) -> V {
    match (name, pos) {
        ("nth_value", _) => V::I(1),
        ("percentile_cont", _) => V::f(0.5),
        ("approx_percentile_cont", 1) | ("approx_percentile_cont_with_weight", 2) => V::f(0.5),
        ("approx_percentile_cont", 2) | ("approx_percentile_cont_with_weight", 3) => V::I(100),
        _ => {
            if matches!(t, Ty::Null) {
                V::Null
            } else {
                V::S(",".into())
            }
        }
    }
}

struct Setup<'a> {
    name: &'a str,
    types: &'a [Ty],
    consts: &'a [Option<V>],
    distinct: bool,
    ignore_nulls: bool,
    order: Option<(bool, bool)>,
}

/// everything `AccumulatorArgs` borrows
struct ArgsOwner {
    schema: Schema,
    exprs: Vec<Arc<dyn PhysicalExpr>>,
    expr_fields: Vec<FieldRef>,
    order_bys: Vec<PhysicalSortExpr>,
    ordering_fields: Vec<FieldRef>,
    return_field: FieldRef,
    name: String,
    distinct: bool,
    ignore_nulls: bool,
}

impl ArgsOwner {
    fn build(udaf: &AggregateUDF, s: &Setup) -> Result<ArgsOwner, DataFusionError> {
        let mut fields: Vec<Field> = s.types.iter().enumerate().map(|(i, t)| Field::new(format!("a{i}"), t.dt(), true)).collect();
        fields.push(Field::new("ord", DataType::Int64, false));
        let ord_idx = fields.len() - 1;
        let schema = Schema::new(fields);
        let mut exprs: Vec<Arc<dyn PhysicalExpr>> = vec![];
        for (i, t) in s.types.iter().enumerate() {
            match s.consts.get(i).and_then(|c| c.as_ref()) {
                Some(v) => exprs.push(Arc::new(Literal::new(to_scalar(v, t)))),
                None => exprs.push(Arc::new(Column::new(&format!("a{i}"), i))),
            }
        }
        let expr_fields = exprs.iter().map(|e| e.return_field(&schema)).collect::<Result<Vec<_>, _>>()?;
        let mut order_bys = vec![];
        let mut ordering_fields = vec![];
        if let Some((desc, nf)) = s.order {
            let e: Arc<dyn PhysicalExpr> = Arc::new(Column::new("ord", ord_idx));
            ordering_fields.push(Arc::new(Field::new(e.to_string().as_str(), DataType::Int64, true)));
            order_bys.push(PhysicalSortExpr::new(e, SortOptions { descending: desc, nulls_first: nf }));
        }
        let return_field = udaf.return_field(&expr_fields)?;
        Ok(ArgsOwner { schema, exprs, expr_fields, order_bys, ordering_fields, return_field, name: format!("{}(..)", s.name), distinct: s.distinct, ignore_nulls: s.ignore_nulls })
    }
    fn args(&self) -> AccumulatorArgs<'_> {
        AccumulatorArgs {
            return_field: Arc::clone(&self.return_field),
            schema: &self.schema,
            expr_fields: &self.expr_fields,
            ignore_nulls: self.ignore_nulls,
            order_bys: &self.order_bys,
            is_distinct: self.distinct,
            name: &self.name,
            is_reversed: false,
            exprs: &self.exprs,
        }
    }
    fn state_args(&self) -> StateFieldsArgs<'_> {
        StateFieldsArgs { name: &self.name, input_fields: &self.expr_fields, return_field: Arc::clone(&self.return_field), ordering_fields: &self.ordering_fields, is_distinct: self.distinct }
    }
}

fn catalog() -> &'static Vec<FnInfo> {
    static CAT: OnceLock<Vec<FnInfo>> = OnceLock::new();
    CAT.get_or_init(|| {
        let pool = type_pool();
        let mut out = vec![];
        let mut fns = datafusion::functions_aggregate::all_default_aggregate_functions();
        fns.sort_by(|a, b| a.name().cmp(b.name()));
        for udaf in fns {
            let name = udaf.name().to_string();
            let mut ar = vec![];
            arities(&udaf.signature().type_signature, &mut ar);
            ar.sort();
            ar.dedup();
            let lits = literal_positions(&name);
            let mut cands: Vec<Vec<Ty>> = vec![];
            for ex in udaf.signature().type_signature.get_example_types() {
                if let Some(v) = ex.iter().map(Ty::from_dt_exact).collect::<Option<Vec<Ty>>>() {
                    cands.push(v);
                }
            }
            let numeric = [Ty::I8, Ty::I32, Ty::I64, Ty::U32, Ty::F32, Ty::F64];
            match name.as_str() {
                "approx_percentile_cont" => {
                    for a in &numeric {
                        cands.push(vec![a.clone(), Ty::F64]);
                        cands.push(vec![a.clone(), Ty::F64, Ty::I64]);
                    }
                }
                "approx_percentile_cont_with_weight" => {
                    for a in &numeric {
                        cands.push(vec![a.clone(), Ty::F64, Ty::F64]);
                        cands.push(vec![a.clone(), a.clone(), Ty::F64]);
                        cands.push(vec![a.clone(), Ty::F64, Ty::F64, Ty::I64]);
                    }
                }
                _ => {}
            }
            for n in ar {
                match n {
                    0 => {}
                    1 => cands.extend(pool.iter().map(|t| vec![t.clone()])),
                    2 => {
                        for a in &pool {
                            for b in &pool {
                                if lits.contains(&1) {
                                    let ok = match name.as_str() {
                                        "nth_value" => *b == Ty::I64,
                                        "percentile_cont" | "approx_percentile_cont" => *b == Ty::F64,
                                        _ => matches!(b, Ty::Utf8 | Ty::LargeUtf8 | Ty::Utf8View | Ty::Null),
                                    };
                                    if !ok {
                                        continue;
                                    }
                                }
                                cands.push(vec![a.clone(), b.clone()]);
                            }
                        }
                    }
                    _ => {
                        if lits.is_empty() {
                            for a in &pool {
                                cands.push(vec![a.clone(); n]);
                            }
                        }
                    }
                }
            }
            let mut coerced: Vec<Vec<Ty>> = vec![];
            for c in cands {
                let Ok(co) = fields_with_udf(&fields_of(&c), udaf.as_ref()) else { continue };
                let Some(tv) = co.iter().map(|f| Ty::from_dt_exact(f.data_type())).collect::<Option<Vec<Ty>>>() else { continue };
                let again = fields_with_udf(&fields_of(&tv), udaf.as_ref());
                let fix = matches!(&again, Ok(f2) if f2.iter().map(|f| f.data_type().clone()).collect::<Vec<_>>() == tv.iter().map(|t| t.dt()).collect::<Vec<_>>());
                if fix && !coerced.contains(&tv) {
                    coerced.push(tv);
                }
            }
            coerced.sort();
            let mut vectors = vec![];
            for tv in coerced {
                let consts: Vec<Option<V>> = tv.iter().enumerate().map(|(i, t)| if lits.contains(&i) { Some(default_const(&name, i, t)) } else { None }).collect();
                let s = Setup { name: &name, types: &tv, consts: &consts, distinct: false, ignore_nulls: false, order: None };
                if let Ok(owner) = ArgsOwner::build(&udaf, &s) {
                    if udaf.accumulator(owner.args()).is_ok() {
                        vectors.push(tv);
                    }
                }
            }
            out.push(FnInfo { name, udaf, vectors });
        }
        out
    })
}

fn find_fn(name: &str) -> Option<&'static FnInfo> {
    catalog().iter().find(|f| f.name == name)
}

// ---------------------------------------------------------------------------------------------
// strategy

fn agg_value(t: &Ty) -> BoxedStrategy<V> {
    let base: BoxedStrategy<V> = match t {
        Ty::I64 => prop_oneof![4 => (-6i64..20).prop_map(V::I), 2 => (-(1i64 << 40)..(1i64 << 40)).prop_map(V::I), 1 => prop::sample::select(vec![1i64 << 53, (1i64 << 53) + 1, i32::MAX as i64 + 1]).prop_map(V::I)].boxed(),
        Ty::U64 => prop_oneof![4 => (0u64..20).prop_map(V::U), 2 => (0u64..(1u64 << 40)).prop_map(V::U)].boxed(),
        Ty::Dec(_, _) | Ty::Dec256(_, _) => prop_oneof![4 => (-50i64..300).prop_map(V::I), 1 => (-99_999_999i64..99_999_999).prop_map(V::I)].boxed(),
        Ty::Dur(_) => (-1000i64..100_000).prop_map(V::I).boxed(),
        Ty::Utf8 | Ty::LargeUtf8 | Ty::Utf8View => prop_oneof![3 => prop::sample::select(vec!["", "a", "b", "ab", "abc", "B", "é", "日本", "thisisalongerstringthatdoesnotfitinline", "x,y"]).prop_map(|s| V::S(s.to_string())), 1 => "[a-c]{0,3}".prop_map(V::S)].boxed(),
        Ty::List(e) => prop::collection::vec(non_null_value(e, true), 0..5).prop_map(V::L).boxed(),
        Ty::Struct(fs) => fs.iter().map(|(_, ft)| non_null_value(ft, true)).collect::<Vec<_>>().prop_map(V::St).boxed(),
        // floats: a few specials on top of small dyadic values (the check is differential, exactness is not needed)
        Ty::F32 | Ty::F64 => prop_oneof![6 => non_null_value(t, true), 1 => prop::sample::select(vec![f64::NAN, f64::INFINITY, -0.0, 1e300, 0.1]).prop_map(V::f)].boxed(),
        _ => non_null_value(t, true),
    };
    if matches!(t, Ty::Null) {
        return Just(V::Null).boxed();
    }
    prop_oneof![1 => Just(V::Null), 4 => base].boxed()
}

fn const_value(name: &str, pos: usize, t: &Ty) -> BoxedStrategy<V> {
    match (name, pos) {
        ("nth_value", _) => prop::sample::select(vec![1i64, 2, 3, 5, -1, -2, -4]).prop_map(V::I).boxed(),
        ("percentile_cont", _) | ("approx_percentile_cont", 1) | ("approx_percentile_cont_with_weight", 2) => prop::sample::select(vec![0.0f64, 0.5, 1.0, 0.25, 0.9, 0.3, 0.75]).prop_map(V::f).boxed(),
        ("approx_percentile_cont", 2) | ("approx_percentile_cont_with_weight", 3) => prop::sample::select(vec![100i64, 10, 2, 1000]).prop_map(V::I).boxed(),
        _ => {
            if matches!(t, Ty::Null) {
                Just(V::Null).boxed()
            } else {
                prop_oneof![5 => prop::sample::select(vec![",", "", "; ", "ab", "|", "é"]).prop_map(|s| V::S(s.to_string())), 1 => Just(V::Null)].boxed()
            }
        }
    }
}

fn case_strategy(tier: Tier) -> BoxedStrategy<Case> {
    let cat = catalog();
    let usable: Vec<usize> = (0..cat.len()).filter(|i| !cat[*i].vectors.is_empty()).collect();
    let max_rows: usize = tier.pick(20, 48);
    (any::<u16>(), any::<u16>(), 0usize..=max_rows)
        .prop_flat_map(move |(fi, ti, n)| {
            let info = &cat[usable[pick_index(fi, usable.len())]];
            let types = info.vectors[pick_index(ti, info.vectors.len())].clone();
            let name = info.name.clone();
            let lits = literal_positions(&name);
            let consts: Vec<BoxedStrategy<Option<V>>> = types.iter().enumerate().map(|(i, t)| if lits.contains(&i) { const_value(&name, i, t).prop_map(Some).boxed() } else { Just(None).boxed() }).collect();
            let arg_strats: Vec<BoxedStrategy<V>> = types.iter().map(agg_value).collect();
            let order = if order_dependent(&name) { prop::option::weighted(0.4, (any::<bool>(), any::<bool>())).boxed() } else { Just(None).boxed() };
            (
                (Just(name), Just(types), consts, prop::bool::weighted(0.25), prop::bool::weighted(0.25), order),
                (prop::collection::vec(arg_strats, n), prop::collection::vec(0i64..1000, n), prop::collection::vec(0u8..5, n), prop::collection::vec(prop_oneof![5 => Just(Some(true)), 2 => Just(Some(false)), 1 => Just(None)], n)),
                (any::<bool>(), prop::collection::vec(any::<u16>(), 0..4), prop::option::weighted(0.5, any::<u16>()), any::<bool>()),
                (prop::collection::vec((0u8..4, 0u8..5), 0..8), prop::option::weighted(0.4, any::<u16>()), any::<bool>()),
            )
        })
        .prop_map(|((func, types, consts, distinct, ignore_nulls, order), (rows, keys, groups, filter), (use_filter, cuts, merge_from, end_with_state), (frames, emit_first, groups_end_with_state))| Case {
            func,
            types,
            consts,
            distinct,
            ignore_nulls,
            order,
            rows,
            keys,
            groups,
            filter,
            use_filter,
            cuts,
            merge_from,
            end_with_state,
            frames,
            emit_first,
            groups_end_with_state,
        })
        .boxed()
}

// ---------------------------------------------------------------------------------------------
// FFI plumbing

/// call an `FFI_*` entry point whose argument struct lives in a private module of datafusion-ffi (the
/// conversion target is inferred from the function pointer type)
fn call_entry<A, T, R>(f: unsafe extern "C" fn(&FFI_AggregateUDF, T) -> R, ffi: &FFI_AggregateUDF, a: A) -> Result<R, DataFusionError>
where
    T: TryFrom<A, Error = DataFusionError>,
{
    let t = T::try_from(a)?;
    Ok(unsafe { f(ffi, t) })
}

pub fn foreign_udaf(udaf: &Arc<AggregateUDF>) -> Result<(FFI_AggregateUDF, AggregateUDF), String> {
    let mut ffi = FFI_AggregateUDF::from(Arc::clone(udaf));
    ffi.library_marker_id = harness_marker;
    let imp: Arc<dyn AggregateUDFImpl> = (&ffi).into();
    if !imp.as_ref().is::<ForeignAggregateUDF>() {
        return Err(format!("marker override did not force the foreign path ({FOREIGN_MARKER_NOTE})"));
    }
    Ok((ffi, AggregateUDF::new_from_shared_impl(imp)))
}

#[derive(Clone, Copy, PartialEq)]
enum Kind {
    Plain,
    Sliding,
}

fn forced_accumulator(ffi: &FFI_AggregateUDF, owner: &ArgsOwner, kind: Kind) -> Result<Box<dyn Accumulator>, String> {
    let entry = match kind {
        Kind::Plain => ffi.accumulator,
        Kind::Sliding => ffi.create_sliding_accumulator,
    };
    let r = call_entry(entry, ffi, owner.args()).map_err(|e| e.to_string())?;
    let mut acc = r.into_result().map_err(|e| e.to_string())?;
    acc.library_marker_id = harness_marker;
    Ok(acc.into())
}

fn forced_groups_accumulator(ffi: &FFI_AggregateUDF, owner: &ArgsOwner) -> Result<Box<dyn GroupsAccumulator>, String> {
    let r = call_entry(ffi.create_groups_accumulator, ffi, owner.args()).map_err(|e| e.to_string())?;
    let mut acc = r.into_result().map_err(|e| e.to_string())?;
    acc.library_marker_id = harness_marker;
    Ok(acc.into())
}

// ---------------------------------------------------------------------------------------------
// comparison helpers

fn render_scalar(v: &ScalarValue) -> String {
    match v.to_array() {
        Ok(a) => format!("{} [{}]", render(a.as_ref(), 0), a.data_type()),
        Err(e) => format!("<unrenderable {e}>"),
    }
}

fn sorted_list_elems(v: &ScalarValue) -> Option<Vec<String>> {
    let a = v.to_array().ok()?;
    let elems: ArrayRef = match a.data_type() {
        DataType::List(_) => {
            let l = a.as_any().downcast_ref::<arrow::array::ListArray>()?;
            if l.is_null(0) {
                return None;
            }
            l.value(0)
        }
        _ => return None,
    };
    let mut r = render_all(elems.as_ref());
    r.sort();
    Some(r)
}

/// equal, or (when `multiset_ok`) list values with the same elements in another order
fn scalar_eq(a: &ScalarValue, b: &ScalarValue, multiset_ok: bool, used_multiset: &mut bool) -> bool {
    if render_scalar(a) == render_scalar(b) {
        return true;
    }
    if multiset_ok && a.data_type() == b.data_type() {
        if let (Some(x), Some(y)) = (sorted_list_elems(a), sorted_list_elems(b)) {
            if x == y {
                *used_multiset = true;
                return true;
            }
        }
        // string_agg(DISTINCT ..): same pieces in another order
        if let (ScalarValue::Utf8(Some(x)) | ScalarValue::LargeUtf8(Some(x)) | ScalarValue::Utf8View(Some(x)), ScalarValue::Utf8(Some(y)) | ScalarValue::LargeUtf8(Some(y)) | ScalarValue::Utf8View(Some(y))) = (a, b) {
            let mut cx: Vec<char> = x.chars().collect();
            let mut cy: Vec<char> = y.chars().collect();
            cx.sort();
            cy.sort();
            if cx == cy {
                *used_multiset = true;
                return true;
            }
        }
    }
    false
}

fn arrays_desc(arrs: &[ArrayRef]) -> Vec<String> {
    arrs.iter().map(|a| format!("{:?} [{}]", render_all(a.as_ref()), a.data_type())).collect()
}

/// per-row list cells compared as multisets when allowed
fn array_eq(a: &ArrayRef, b: &ArrayRef, multiset_ok: bool, used_multiset: &mut bool) -> bool {
    if a.data_type() != b.data_type() || a.len() != b.len() {
        return false;
    }
    if render_all(a.as_ref()) == render_all(b.as_ref()) {
        return true;
    }
    if !multiset_ok {
        return false;
    }
    for i in 0..a.len() {
        let (Ok(x), Ok(y)) = (ScalarValue::try_from_array(a.as_ref(), i), ScalarValue::try_from_array(b.as_ref(), i)) else { return false };
        if !scalar_eq(&x, &y, true, used_multiset) {
            return false;
        }
    }
    true
}

fn stats() -> &'static Mutex<BTreeMap<String, [u64; 5]>> {
    static S: OnceLock<Mutex<BTreeMap<String, [u64; 5]>>> = OnceLock::new();
    S.get_or_init(|| Mutex::new(BTreeMap::new()))
}

/// slots: 0 cases, 1 plain compared, 2 sliding compared, 3 groups compared, 4 non-trivial
fn bump(name: &str, slot: usize) {
    if let Ok(mut m) = stats().lock() {
        m.entry(name.to_string()).or_insert([0; 5])[slot] += 1;
    }
}

fn split_points(cuts: &[u16], n: usize) -> Vec<usize> {
    let mut pts: Vec<usize> = cuts.iter().map(|c| pick_index(*c, n + 1)).collect();
    pts.push(0);
    pts.push(n);
    pts.sort();
    pts.dedup();
    pts
}

impl Property for C45b {
    type Case = Case;
    fn id(&self) -> &'static str {
        "C45"
    }
    fn sub(&self) -> &'static str {
        "c45b"
    }
    fn strategy(&self, tier: Tier) -> BoxedStrategy<Case> {
        case_strategy(tier)
    }
    fn budget(&self, tier: Tier) -> Budget {
        Budget::new(tier.pick(1_600, 600_000), tier.pick(8, 16)).min_nontrivial(tier.pick(400, 150_000)).discard_cap(0.5)
    }
    fn rule(&self) -> String {
        "aggregate function and coerced argument-type vector drawn uniformly from the catalog (all 39 default aggregate UDFs; vectors accepted by the native accumulator factory), DISTINCT / IGNORE NULLS / ORDER BY variants, 0-20 rows \
         (thorough 0-48) with NULLs, batch cuts, helper-state merge, sliding frames, group ids, nullable filter, EmitTo::First; native accumulator vs accumulator via ForeignAggregateUDF vs forced ForeignAccumulator / ForeignGroupsAccumulator driven by the \
         same protocol-conforming tape and compared after each observable call; non-trivial = a native evaluate/state produced a non-NULL value that was compared with the forced-foreign one; distinct by case JSON; labels fn=<name> count such cases"
            .into()
    }
    fn assumptions(&self) -> Vec<String> {
        vec![
            "differential oracle: native and foreign objects receive identical call sequences, so order sensitivity and float inexactness cancel".to_string(),
            "DISTINCT states/results without ORDER BY are compared as multisets (hash-set iteration order differs between two accumulator instances)".to_string(),
            "simplify, documentation, reverse_expr are not part of the FFI struct and not compared".to_string(),
            "ORDER BY only for first_value/last_value/array_agg/string_agg/nth_value (ORDER BY on order-insensitive aggregates is a known C07 finding unrelated to the FFI)".to_string(),
            "nested FFI structs created inside a conversion (FFI_PhysicalExpr in the accumulator arguments) keep the library's own marker and are unwrapped locally — their foreign path is not forced".to_string(),
            format!("foreign path forced by overwriting the public library_marker_id fields ({FOREIGN_MARKER_NOTE})"),
        ]
    }
    fn run(&self, case: &Case) -> CaseResult {
        run_cached(case)
    }
    fn known_signature(&self, case: &Case) -> Option<String> {
        match &run_cached(case).outcome {
            Outcome::Violation(m) => m.strip_prefix("[sig=").and_then(|rest| rest.split(']').next()).map(|s| s.to_string()),
            _ => None,
        }
    }
    fn extra(&self, _tier: Tier, _seed: u64) -> Result<Value, (String, Case)> {
        let st = stats().lock().map(|m| m.clone()).unwrap_or_default();
        let mut per_fn = serde_json::Map::new();
        let mut zero = vec![];
        for f in catalog() {
            let s = st.get(&f.name).copied().unwrap_or([0; 5]);
            per_fn.insert(f.name.clone(), json!({"type_vectors": f.vectors.len(), "cases": s[0], "plain_compared": s[1], "sliding_compared": s[2], "groups_compared": s[3], "nontrivial": s[4]}));
            if s[1] == 0 {
                zero.push(f.name.clone());
            }
        }
        Ok(json!({"per_function": per_fn, "functions_with_zero_successes": zero, "functions_in_scope": catalog().len()}))
    }
}

thread_local! {
    static LAST: std::cell::RefCell<Option<(u64, CaseResult)>> = const { std::cell::RefCell::new(None) };
}

fn run_cached(case: &Case) -> CaseResult {
    let fp = serde_json::to_vec(case).map(|b| fnv1a(&b)).unwrap_or(0);
    if let Some(r) = LAST.with(|l| l.borrow().as_ref().filter(|(f, _)| *f == fp).map(|(_, r)| r.clone())) {
        return r;
    }
    let r = crate::foreign(|| run_case(case));
    LAST.with(|l| *l.borrow_mut() = Some((fp, r.clone())));
    r
}

fn run_case(case: &Case) -> CaseResult {
    let Some(info) = find_fn(&case.func) else { return CaseResult::discard("unknown function") };
    let name = info.name.as_str();
    let native = &info.udaf;
    let n = case.rows.len();
    let na = case.types.len();
    if case.consts.len() != na || case.rows.iter().any(|r| r.len() != na) || case.keys.len() != n || case.groups.len() != n || case.filter.len() != n {
        return CaseResult::discard("malformed case");
    }
    bump(name, 0);
    crate::set_current_case("c45b", case);
    let mut labels: Vec<String> = vec![];
    let sig = format!(
        "{name}({}{}){}{}",
        if case.distinct { "DISTINCT " } else { "" },
        case.types.iter().map(|t| t.short()).collect::<Vec<_>>().join(","),
        if case.ignore_nulls { " IGNORE NULLS" } else { "" },
        if case.order.is_some() { " ORDER BY ord" } else { "" }
    );
    macro_rules! violation {
        ($($arg:tt)*) => {
            return CaseResult::violation(format!("{sig}: {}", format!($($arg)*))).labels(labels.clone())
        };
    }
    let (ffi, foreign) = match foreign_udaf(native) {
        Ok(x) => x,
        Err(e) => violation!("{e}"),
    };
    // a NATIVE call with panic capture: a native panic is not an FFI matter (and would abort the process inside an
    // extern "C" entry point), so the section is abandoned before the foreign side is called
    let mut native_panics: Vec<String> = vec![];
    macro_rules! nat {
        ($e:expr, $bail:expr) => {
            match crate::guard(|| $e) {
                Ok(r) => r,
                Err(p) => {
                    native_panics.push(format!("native-panic:fn={name}:{}", truncate(&p, 40)));
                    $bail
                }
            }
        };
    }

    // ---- metadata
    if foreign.name() != native.name() || foreign.aliases() != native.aliases() {
        violation!("name/aliases: native {:?} {:?} foreign {:?} {:?}", native.name(), native.aliases(), foreign.name(), foreign.aliases());
    }
    if foreign.signature().volatility != native.signature().volatility {
        violation!("volatility differs");
    }
    if foreign.is_nullable() != native.is_nullable() {
        violation!("is_nullable: native {} foreign {}", native.is_nullable(), foreign.is_nullable());
    }
    if foreign.order_sensitivity() != native.order_sensitivity() {
        violation!("order_sensitivity: native {:?} foreign {:?}", native.order_sensitivity(), foreign.order_sensitivity());
    }
    if foreign.inner().supports_null_handling_clause() != native.inner().supports_null_handling_clause() {
        violation!("supports_null_handling_clause differs");
    }
    {
        let fields = fields_of(&case.types);
        let a = fields_with_udf(&fields, native.as_ref()).map(|f| f.iter().map(|x| x.data_type().clone()).collect::<Vec<_>>()).map_err(|e| truncate(&e.to_string(), 200));
        let b = fields_with_udf(&fields, &foreign).map(|f| f.iter().map(|x| x.data_type().clone()).collect::<Vec<_>>()).map_err(|e| truncate(&e.to_string(), 200));
        let raw_dts: Vec<DataType> = case.types.iter().map(|t| t.dt()).collect();
        if let Err(e) = crate::coercion_agree(&a, &b, &raw_dts) {
            violation!("coercion: {e}");
        }
    }

    let setup = Setup { name, types: &case.types, consts: &case.consts, distinct: case.distinct, ignore_nulls: case.ignore_nulls, order: case.order };
    let owner = match ArgsOwner::build(native, &setup) {
        Ok(o) => o,
        Err(e) => return CaseResult::discard(format!("native rejects the expression: {}", truncate(&e.to_string(), 50))),
    };
    // return field through the foreign UDAF
    match foreign.return_field(&owner.expr_fields) {
        Ok(f) => {
            if f.as_ref() != owner.return_field.as_ref() {
                violation!("return_field: native {:?} foreign {:?}", owner.return_field, f);
            }
        }
        Err(e) => violation!("return_field: native Ok, foreign Err {e}"),
    }
    match (native.state_fields(owner.state_args()), foreign.state_fields(owner.state_args())) {
        (Ok(a), Ok(b)) => {
            if a != b {
                violation!("state_fields: native {a:?} foreign {b:?}");
            }
        }
        (Err(_), Err(_)) => labels.push("state_fields:both-fail".into()),
        (a, b) => violation!("state_fields: native {:?} foreign {:?}", a.map(|_| "Ok"), b.map(|_| "Ok")),
    }
    // value on empty input: used by the optimizer when it decorrelates scalar subqueries (the "count bug")
    let mut pending_known: Option<String> = None;
    {
        let dt = owner.return_field.data_type();
        match (native.default_value(dt), foreign.default_value(dt)) {
            (Ok(a), Ok(b)) => {
                if render_scalar(&a) != render_scalar(&b) {
                    // reported at the very end, after every other comparison of this case has passed
                    pending_known = Some(format!(
                        "[sig=udaf-default-value-not-carried] {sig}: default_value({dt}) (the aggregate's value over no rows, used when a correlated scalar subquery is decorrelated): native {} foreign {} — FFI_AggregateUDF has no default_value entry, ForeignAggregateUDF answers NULL",
                        render_scalar(&a),
                        render_scalar(&b)
                    ));
                }
            }
            (Err(_), Err(_)) => {}
            (a, b) => violation!("default_value: native ok={} foreign ok={}", a.is_ok(), b.is_ok()),
        }
    }
    let gsup = native.groups_accumulator_supported(owner.args());
    if foreign.groups_accumulator_supported(owner.args()) != gsup {
        violation!("groups_accumulator_supported: native {gsup} foreign {}", !gsup);
    }

    // ---- data
    let mut cols: Vec<ArrayRef> = vec![];
    for i in 0..na {
        let arr = match &case.consts[i] {
            Some(v) => match to_scalar(v, &case.types[i]).to_array_of_size(n) {
                Ok(a) => a,
                Err(e) => return CaseResult::discard(format!("cannot build literal column: {}", truncate(&e.to_string(), 50))),
            },
            None => {
                let vals: Vec<V> = case.rows.iter().map(|r| r[i].clone()).collect();
                match to_array(&vals, &case.types[i]) {
                    Ok(a) => a,
                    Err(e) => return CaseResult::discard(format!("cannot build argument: {}", truncate(&e, 50))),
                }
            }
        };
        cols.push(arr);
    }
    let order_sensitive = native.order_sensitivity() != AggregateOrderSensitivity::Insensitive && case.order.is_some();
    if order_sensitive {
        cols.push(Arc::new(Int64Array::from(case.keys.clone())));
        labels.push("order-by".into());
    }
    let slice = |lo: usize, hi: usize| -> Vec<ArrayRef> { cols.iter().map(|c| c.slice(lo, hi - lo)).collect() };
    let multiset_ok = (case.distinct || name == "approx_distinct") && !order_sensitive;
    let mut used_multiset = false;
    let mut nontrivial = false;
    let pts = split_points(&case.cuts, n);
    let merge_at = case.merge_from.map(|f| pick_index(f, n + 1)).unwrap_or(n);

    // ---- plain accumulators: N, U (via ForeignAggregateUDF), F (forced ForeignAccumulator)
    'plain: {
    let acc_n = nat!(native.accumulator(owner.args()), break 'plain);
    let acc_u = foreign.accumulator(owner.args());
    let acc_f = forced_accumulator(&ffi, &owner, Kind::Plain);
    match (acc_n, acc_u, acc_f) {
        (Err(_), Err(_), Err(_)) => labels.push("accumulator:all-reject".into()),
        (Ok(mut a_n), Ok(mut a_u), Ok(mut a_f)) => {
            if a_f.supports_retract_batch() != a_n.supports_retract_batch() {
                violation!("supports_retract_batch: native {} foreign {}", a_n.supports_retract_batch(), a_f.supports_retract_batch());
            }
            let mut failed = false;
            macro_rules! step {
                ($what:expr, $call:ident, $vals:expr) => {{
                    let v: Vec<ArrayRef> = $vals;
                    let rn = nat!(a_n.$call(&v), break 'plain);
                    let (ru, rf) = (a_u.$call(&v), a_f.$call(&v));
                    match (&rn, &ru, &rf) {
                        (Ok(()), Ok(()), Ok(())) => {}
                        (Err(_), Err(_), Err(_)) => {
                            labels.push(format!("{}:all-fail", $what));
                            failed = true;
                        }
                        _ => violation!("{}: native {:?} via-foreign-udaf {:?} forced-foreign {:?}; values {:?}", $what, rn.as_ref().map_err(|e| truncate(&e.to_string(), 200)), ru.as_ref().map_err(|e| truncate(&e.to_string(), 200)), rf.as_ref().map_err(|e| truncate(&e.to_string(), 200)), arrays_desc(&v)),
                    }
                }};
            }
            for w in pts.windows(2) {
                let (lo, hi) = (w[0], w[1].min(merge_at));
                if failed || lo >= hi {
                    continue;
                }
                step!("update_batch", update_batch, slice(lo, hi));
            }
            if !failed && merge_at < n {
                // the rest of the rows arrive as a partial state produced by a native helper
                match nat!(native.accumulator(owner.args()), break 'plain) {
                    Ok(mut helper) => {
                        if nat!(helper.update_batch(&slice(merge_at, n)), break 'plain).is_ok() {
                            if let Ok(st) = nat!(helper.state(), break 'plain) {
                                let arrs: Result<Vec<ArrayRef>, _> = st.iter().map(|s| s.to_array()).collect();
                                if let Ok(arrs) = arrs {
                                    labels.push("merge_batch".into());
                                    step!("merge_batch", merge_batch, arrs);
                                }
                            }
                        }
                    }
                    Err(_) => {}
                }
            }
            if !failed {
                // size() is forwarded, but its value depends on buffer capacities of the arrays each side happens to
                // hold (imported C-data buffers report their exact length): exercised, not compared
                let _ = (nat!(a_n.size(), break 'plain), a_f.size());
                if case.end_with_state {
                    match (nat!(a_n.state(), break 'plain), a_u.state(), a_f.state()) {
                        (Ok(x), Ok(y), Ok(z)) => {
                            if x.len() != y.len() || x.len() != z.len() || !x.iter().zip(y.iter()).all(|(p, q)| scalar_eq(p, q, multiset_ok, &mut used_multiset)) || !x.iter().zip(z.iter()).all(|(p, q)| scalar_eq(p, q, multiset_ok, &mut used_multiset)) {
                                violation!(
                                    "state(): native {:?} via-foreign-udaf {:?} forced-foreign {:?}",
                                    x.iter().map(render_scalar).collect::<Vec<_>>(),
                                    y.iter().map(render_scalar).collect::<Vec<_>>(),
                                    z.iter().map(render_scalar).collect::<Vec<_>>()
                                );
                            }
                            labels.push("end:state".into());
                            if x.iter().any(|s| !s.is_null()) {
                                nontrivial = true;
                            }
                            bump(name, 1);
                        }
                        (Err(_), Err(_), Err(_)) => labels.push("state:all-fail".into()),
                        (x, y, z) => violation!("state(): native ok={} via-foreign-udaf ok={} forced-foreign ok={} ({:?})", x.is_ok(), y.is_ok(), z.is_ok(), z.err().map(|e| truncate(&e.to_string(), 200))),
                    }
                } else {
                    match (nat!(a_n.evaluate(), break 'plain), a_u.evaluate(), a_f.evaluate()) {
                        (Ok(x), Ok(y), Ok(z)) => {
                            if !scalar_eq(&x, &y, multiset_ok, &mut used_multiset) || !scalar_eq(&x, &z, multiset_ok, &mut used_multiset) {
                                violation!("evaluate(): native {} via-foreign-udaf {} forced-foreign {}", render_scalar(&x), render_scalar(&y), render_scalar(&z));
                            }
                            labels.push("end:evaluate".into());
                            if !x.is_null() {
                                nontrivial = true;
                            }
                            bump(name, 1);
                        }
                        (Err(_), Err(_), Err(_)) => labels.push("evaluate:all-fail".into()),
                        (x, y, z) => violation!("evaluate(): native ok={} via-foreign-udaf ok={} forced-foreign ok={} ({:?})", x.is_ok(), y.is_ok(), z.is_ok(), z.err().map(|e| truncate(&e.to_string(), 200))),
                    }
                }
            }
        }
        (a, b, c) => violation!("accumulator(): native ok={} via-foreign-udaf ok={} forced-foreign ok={} ({:?})", a.is_ok(), b.is_ok(), c.is_ok(), c.err()),
    }
    }

    // ---- sliding accumulators
    if !case.frames.is_empty() && n > 0 {
        'sliding: {
        let s_n = nat!(native.create_sliding_accumulator(owner.args()), break 'sliding);
        let s_f = forced_accumulator(&ffi, &owner, Kind::Sliding);
        match (s_n, s_f) {
            (Ok(mut a_n), Ok(mut a_f)) => {
                if a_n.supports_retract_batch() != a_f.supports_retract_batch() {
                    violation!("sliding supports_retract_batch: native {} foreign {}", a_n.supports_retract_batch(), a_f.supports_retract_batch());
                }
                if a_n.supports_retract_batch() {
                    let (mut s, mut e) = (0usize, 0usize);
                    let mut compared = 0;
                    'frames: for (ds, de) in &case.frames {
                        let ne = (e + *de as usize).min(n);
                        let ns = (s + *ds as usize).min(ne);
                        if ne > e {
                            let v = slice(e, ne);
                            match (nat!(a_n.update_batch(&v), break 'sliding), a_f.update_batch(&v)) {
                                (Ok(()), Ok(())) => {}
                                (Err(_), Err(_)) => break 'frames,
                                (x, y) => violation!("sliding update_batch: native {:?} foreign {:?}", x.map_err(|e| truncate(&e.to_string(), 200)), y.map_err(|e| truncate(&e.to_string(), 200))),
                            }
                        }
                        if ns > s {
                            let v = slice(s, ns);
                            match (nat!(a_n.retract_batch(&v), break 'sliding), a_f.retract_batch(&v)) {
                                (Ok(()), Ok(())) => {}
                                (Err(_), Err(_)) => break 'frames,
                                (x, y) => violation!("retract_batch: native {:?} foreign {:?}", x.map_err(|e| truncate(&e.to_string(), 200)), y.map_err(|e| truncate(&e.to_string(), 200))),
                            }
                        }
                        s = ns;
                        e = ne;
                        if e > s {
                            match (nat!(a_n.evaluate(), break 'sliding), a_f.evaluate()) {
                                (Ok(x), Ok(y)) => {
                                    if !scalar_eq(&x, &y, multiset_ok, &mut used_multiset) {
                                        violation!("sliding evaluate() on frame [{s},{e}): native {} foreign {}", render_scalar(&x), render_scalar(&y));
                                    }
                                    if !x.is_null() {
                                        nontrivial = true;
                                    }
                                    compared += 1;
                                }
                                (Err(_), Err(_)) => break 'frames,
                                (x, y) => violation!("sliding evaluate(): native ok={} foreign ok={}", x.is_ok(), y.is_ok()),
                            }
                        }
                    }
                    if compared > 0 {
                        labels.push("sliding".into());
                        bump(name, 2);
                    }
                }
            }
            (Err(_), Err(_)) => labels.push("sliding:both-reject".into()),
            (a, b) => violation!("create_sliding_accumulator: native ok={} foreign ok={} ({:?})", a.is_ok(), b.is_ok(), b.err()),
        }
        }
    }

    // ---- groups accumulators
    if gsup {
        'groups: {
        let g_n = nat!(native.create_groups_accumulator(owner.args()), break 'groups);
        let g_u = foreign.create_groups_accumulator(owner.args());
        let g_f = forced_groups_accumulator(&ffi, &owner);
        match (g_n, g_u, g_f) {
            (Ok(mut a_n), Ok(mut a_u), Ok(mut a_f)) => {
                let total: usize = case.groups.iter().map(|g| *g as usize + 1).max().unwrap_or(0);
                let filter_arr: Option<BooleanArray> = if case.use_filter { Some(BooleanArray::from(case.filter.clone())) } else { None };
                if filter_arr.is_some() {
                    labels.push("groups:filter".into());
                }
                let mut failed = false;
                for w in pts.windows(2) {
                    let (lo, hi) = (w[0], w[1].min(merge_at));
                    if failed || lo >= hi {
                        continue;
                    }
                    let v = slice(lo, hi);
                    let gi: Vec<usize> = case.groups[lo..hi].iter().map(|g| *g as usize).collect();
                    let f = filter_arr.as_ref().map(|f| f.slice(lo, hi - lo));
                    let rn = nat!(a_n.update_batch(&v, &gi, f.as_ref(), total), break 'groups);
                    let (ru, rf) = (a_u.update_batch(&v, &gi, f.as_ref(), total), a_f.update_batch(&v, &gi, f.as_ref(), total));
                    match (&rn, &ru, &rf) {
                        (Ok(()), Ok(()), Ok(())) => {}
                        (Err(_), Err(_), Err(_)) => failed = true,
                        _ => violation!("groups update_batch: native {:?} via-foreign-udaf {:?} forced-foreign {:?}", rn.map_err(|e| truncate(&e.to_string(), 200)), ru.map_err(|e| truncate(&e.to_string(), 200)), rf.map_err(|e| truncate(&e.to_string(), 200))),
                    }
                }
                if !failed && merge_at < n {
                    if let Ok(mut helper) = nat!(native.create_groups_accumulator(owner.args()), break 'groups) {
                        // dense re-mapping of the groups present in the tail
                        let mut present: Vec<usize> = case.groups[merge_at..n].iter().map(|g| *g as usize).collect();
                        present.sort();
                        present.dedup();
                        let gi: Vec<usize> = case.groups[merge_at..n].iter().map(|g| present.iter().position(|p| *p == *g as usize).unwrap_or(0)).collect();
                        let f = filter_arr.as_ref().map(|f| f.slice(merge_at, n - merge_at));
                        if nat!(helper.update_batch(&slice(merge_at, n), &gi, f.as_ref(), present.len()), break 'groups).is_ok() {
                            if let Ok(st) = nat!(helper.state(EmitTo::All), break 'groups) {
                                let rn = nat!(a_n.merge_batch(&st, &present, total), break 'groups);
                                let (ru, rf) = (a_u.merge_batch(&st, &present, total), a_f.merge_batch(&st, &present, total));
                                match (&rn, &ru, &rf) {
                                    (Ok(()), Ok(()), Ok(())) => labels.push("groups:merge_batch".into()),
                                    (Err(_), Err(_), Err(_)) => failed = true,
                                    _ => violation!("groups merge_batch: native {:?} via-foreign-udaf {:?} forced-foreign {:?}; state {:?}", rn.map_err(|e| truncate(&e.to_string(), 200)), ru.map_err(|e| truncate(&e.to_string(), 200)), rf.map_err(|e| truncate(&e.to_string(), 200)), arrays_desc(&st)),
                                }
                            }
                        }
                    }
                }
                // convert_to_state on the first batch (stateless with respect to the accumulated groups)
                if !failed && n > 0 && name != "percentile_cont" {
                    let hi = pts.get(1).copied().unwrap_or(n).max(1).min(n);
                    let v = slice(0, hi);
                    let f = filter_arr.as_ref().map(|f| f.slice(0, hi));
                    match (nat!(a_n.convert_to_state(&v, f.as_ref()), break 'groups), a_f.convert_to_state(&v, f.as_ref())) {
                        (Ok(x), Ok(y)) => {
                            if x.len() != y.len() || !x.iter().zip(y.iter()).all(|(p, q)| array_eq(p, q, multiset_ok, &mut used_multiset)) {
                                violation!("convert_to_state: native {:?} forced-foreign {:?}", arrays_desc(&x), arrays_desc(&y));
                            }
                            labels.push("groups:convert_to_state".into());
                        }
                        (Err(_), Err(_)) => {}
                        (x, y) => violation!("convert_to_state: native ok={} forced-foreign ok={} ({:?})", x.is_ok(), y.is_ok(), y.err().map(|e| truncate(&e.to_string(), 200))),
                    }
                }
                if !failed && total > 0 {
                    let mut emits: Vec<EmitTo> = vec![];
                    if let Some(f) = case.emit_first {
                        let k = pick_index(f, total + 1);
                        if k > 0 && k < total {
                            emits.push(EmitTo::First(k));
                            labels.push("groups:emit-first".into());
                        }
                    }
                    emits.push(EmitTo::All);
                    for emit in emits {
                        let _ = (nat!(a_n.size(), break 'groups), a_f.size());
                        if case.groups_end_with_state {
                            match (nat!(a_n.state(emit), break 'groups), a_u.state(emit), a_f.state(emit)) {
                                (Ok(x), Ok(y), Ok(z)) => {
                                    let ok = x.len() == y.len() && x.len() == z.len() && x.iter().zip(y.iter()).all(|(p, q)| array_eq(p, q, multiset_ok, &mut used_multiset)) && x.iter().zip(z.iter()).all(|(p, q)| array_eq(p, q, multiset_ok, &mut used_multiset));
                                    if !ok {
                                        violation!("groups state({emit:?}): native {:?} via-foreign-udaf {:?} forced-foreign {:?}", arrays_desc(&x), arrays_desc(&y), arrays_desc(&z));
                                    }
                                    if x.iter().any(|a| a.null_count() < a.len()) {
                                        nontrivial = true;
                                    }
                                    bump(name, 3);
                                }
                                (Err(_), Err(_), Err(_)) => break,
                                (x, y, z) => violation!("groups state({emit:?}): native ok={} via-foreign-udaf ok={} forced-foreign ok={} ({:?})", x.is_ok(), y.is_ok(), z.is_ok(), z.err().map(|e| truncate(&e.to_string(), 200))),
                            }
                        } else {
                            match (nat!(a_n.evaluate(emit), break 'groups), a_u.evaluate(emit), a_f.evaluate(emit)) {
                                (Ok(x), Ok(y), Ok(z)) => {
                                    if !array_eq(&x, &y, multiset_ok, &mut used_multiset) || !array_eq(&x, &z, multiset_ok, &mut used_multiset) {
                                        violation!("groups evaluate({emit:?}): native {:?} via-foreign-udaf {:?} forced-foreign {:?}", arrays_desc(&[x]), arrays_desc(&[y]), arrays_desc(&[z]));
                                    }
                                    if x.null_count() < x.len() {
                                        nontrivial = true;
                                    }
                                    bump(name, 3);
                                }
                                (Err(_), Err(_), Err(_)) => break,
                                (x, y, z) => violation!("groups evaluate({emit:?}): native ok={} via-foreign-udaf ok={} forced-foreign ok={} ({:?})", x.is_ok(), y.is_ok(), z.is_ok(), z.err().map(|e| truncate(&e.to_string(), 200))),
                            }
                        }
                    }
                    labels.push("groups".into());
                }
            }
            (Err(_), Err(_), Err(_)) => labels.push("groups:all-reject".into()),
            (a, b, c) => violation!("create_groups_accumulator: native ok={} via-foreign-udaf ok={} forced-foreign ok={} ({:?})", a.is_ok(), b.is_ok(), c.is_ok(), c.err()),
        }
        }
    }

    labels.extend(native_panics);
    if used_multiset {
        labels.push("multiset-compare".into());
    }
    if case.distinct {
        labels.push("distinct".into());
    }
    if nontrivial {
        labels.push(format!("fn={name}"));
        bump(name, 4);
    }
    if let Some(m) = pending_known {
        return CaseResult::violation(m).labels(labels).nontrivial(nontrivial);
    }
    CaseResult::pass().labels(labels).nontrivial(nontrivial)
}
