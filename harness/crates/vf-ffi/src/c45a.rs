//! C45 part a — scalar UDFs wrapped as `FFI_ScalarUDF` and used through `ForeignScalarUDF` behave as native.
//!
//! Domain: every `ScalarUDF` of `datafusion::functions::all_default_functions()` and
//! `datafusion::functions_nested::all_default_nested_functions()` (volatile ones included; only `union_*`
//! is out because union inputs are not generated). For a case (function, coerced argument-type vector,
//! 1–12 / 1–24 rows of values from per-type pools + literal dictionaries, a scalar/array mask, a session
//! time zone, a raw pre-coercion type vector, placements and lex-ordering flags) the function is wrapped with
//! `FFI_ScalarUDF::from(Arc<ScalarUDF>)`, its public `library_marker_id` is overwritten with a harness
//! marker and `Arc<dyn ScalarUDFImpl>::from(&ffi)` then yields a `ForeignScalarUDF` (asserted: the result
//! does not downcast to the native type and its signature is the FFI's `user_defined`).
//!
//! Oracle (differential native vs. foreign; only what the FFI struct carries is compared):
//!  M  metadata: `name`, `aliases`, `signature().volatility`, `short_circuits` equal. The *type signature*
//!     is documented NOT to be carried (`coerce_types` doc: "all UDFs are treated as having user defined
//!     signatures") — instead:
//!  C  coercion: for the raw type vector and for the coerced one, `fields_with_udf(fields, native)` and
//!     `fields_with_udf(fields, foreign)` (→ `ForeignScalarUDF::coerce_types` → FFI → native) agree: same
//!     types or both rejected.
//!  R  `return_field_from_args` (argument fields + the literal arguments, which travel as protobuf
//!     `ScalarValue`s): same field (name, type, nullability, metadata) or both fail.
//!  I  `invoke_with_args` with the case's scalar/array mask, `number_rows`, the return field and
//!     `ConfigOptions` (session time zone set from the case): the foreign call must behave as the native
//!     function called with the SAME arguments materialised as arrays — `FFI_ScalarUDF::invoke_with_args`
//!     is declared with `args: SVec<WrappedArray>`, so scalar-ness of arguments is documented not to cross
//!     the boundary (`ForeignScalarUDF` expands scalars with `to_array(number_rows)`): both succeed with the
//!     same `ColumnarValue` variant, same length, same `DataType` and equal values (bitwise floats modulo
//!     NaN payload), or both fail. For volatile functions values are not compared (shape and type are).
//!  P  `placement(args)` and `preserves_lex_ordering(inputs)` agree; `with_updated_config` is `Some` on one
//!     side iff on the other (and then has the same name).
//! Informational only (label `scalarness-matters`): the native function called with the arguments as given
//! (scalars preserved) succeeds while the all-arrays call fails — i.e. a function that only accepts a literal
//! argument cannot be called through the FFI at all; listed per function in the evidence
//! (`scalar_only_functions`), not a violation because the interface documents array transport.
//!
//! Non-trivial: native all-arrays invocation succeeded with at least one non-NULL output value and was
//! compared. Labels `fn=<name>` count such successes per function; `extra()` adds `per_function` counters
//! and `functions_with_zero_successes` (functions the generator never managed to call successfully).
//!
//! Deviations from DESIGN.md: "same signature" is replaced by C (the FFI replaces every signature by
//! `user_defined` by design; for such signatures the planner additionally verifies castability, so "native
//! accepts an uncastable vector / foreign rejects" is tolerated, see `coercion_agree` in main.rs); the
//! catalog has 180 built-in scalar functions (default + nested; the ~350 of the design counted Spark
//! functions, which are not a dependency of this crate) plus the harness UDF `vf_config_echo`.
//!
//! Invocation oracle in detail (G = native on the arguments as given, A = native on the same arguments
//! materialised as arrays, F = foreign on the arguments as given): F must agree with A (today's array-only
//! transport) or with G (a transport that keeps scalars, see the proposed repair) in success, variant,
//! length, type and values. If F agrees with A but G succeeds where F fails, the case is the GENUINE FINDING
//! `scalar-args-lost` (open in /verif/known_findings.json, case regressions/C45/c45a/, repair
//! fixes/C45-ffi-scalar-udf-keeps-scalar-arguments.diff): functions that require a literal argument
//! (date_part, date_trunc, date_bin, encode, decode, digest, from_unixtime(_, tz), to_hex, trunc(x, n),
//! array_has_any, array_remove*, map, to_time, arrow_metadata) work natively and can never succeed through
//! `ForeignScalarUDF`. The violation is raised last, after every other comparison of the case passed, and is
//! matched by `known_signature`, so those functions stay covered by M/C/R/P while the finding is open.
//! A panic of the NATIVE function (map / make_array / array_concat / lpad / rpad / array_length on odd
//! inputs — C32 territory) ends the case with a `native-panic:` label before the foreign side is called: the
//! same panic inside an `extern "C"` entry point would abort the process.
//!
//! Sensitivity probes (env-gated multi-mutation patch probes/probes.diff, driver probes/run-probes.sh, log
//! probes/probes.log; `tools/mutrun probes/probes.diff -- bash probes/run-probes.sh`; quick tier, seed 0):
//!  p1  ForeignScalarUDF passes `number_rows.min(1)`            → VIOLATION "uuid(): result length differs: native 5 foreign 1"
//!      (a later run of the same probe hit a native function that panics on the inconsistent row count inside the extern "C"
//!      entry first: process abort, exit 134 — a crash instead of a verdict; the case is saved by the abort hook, see below)
//!  p2  provider returns the return field with nullable=true     → VIOLATION "coalesce(..): return_field_from_args differs .. nullable=false / true"
//!  p11 FFI_Volatility maps Stable to Immutable                  → VIOLATION "current_date(): volatility: native Stable foreign Immutable"
//!  p12 ForeignScalarUDF sends default ConfigOptions            → first run MISSED (only to_unixtime reads the options at
//!      invocation); generator strengthened with the harness UDF `vf_config_echo` (echoes time zone, batch size, number_rows);
//!      re-probe → VIOLATION "vf_config_echo(): row 0 differs: native \"Some(\"+01:00\")|8192|11\" foreign \"None|8192|11\"".
//!
//! Second GENUINE FINDING `c-schema-export-panics-on-nul` (open, no repair: arrow-schema dependency): a literal
//! argument with a NUL byte that becomes part of the return type (`from_unixtime(x, 'ab\0cd')`) makes
//! `FFI_ArrowSchema::try_from` panic (`CString::new(..).unwrap()`) inside the extern "C" return-field wrapper:
//! the process aborts where the native function returns a field. Found as an abort of the thorough tier; the
//! export is now probed natively (under `guard`) and such cases do not cross the FFI.
//! Abort forensics: a panic inside an extern "C" entry point cannot be caught. `crate::set_current_case` +
//! `crate::foreign` arm a chained panic hook that writes the case being evaluated to
//! /verif/replays/<sub>-foreign-abort-<hash>.json before the process dies, so an abort is replayable.
//! With the three proposed repairs applied (probes/fixes-all.diff) `./check C45 quick` passes with known_excluded = 0.
use crate::fx::*;
use crate::vals::*;
use crate::{FOREIGN_MARKER_NOTE, harness_marker};
use arrow::array::{Array, ArrayRef};
use arrow::datatypes::{DataType, Field, FieldRef};
use datafusion::common::config::ConfigOptions;
use datafusion::common::{DataFusionError, ScalarValue};
use datafusion::logical_expr::interval_arithmetic::Interval;
use datafusion::logical_expr::sort_properties::{ExprProperties, SortProperties};
use datafusion::logical_expr::type_coercion::functions::fields_with_udf;
use datafusion::logical_expr::{ColumnarValue, ExpressionPlacement, ReturnFieldArgs, ScalarFunctionArgs, ScalarUDF, ScalarUDFImpl, TypeSignature, Volatility};
use datafusion_ffi::udf::{FFI_ScalarUDF, ForeignScalarUDF};
use proptest::prelude::*;
use serde::{Deserialize, Serialize};
use serde_json::{Value, json};
use std::collections::BTreeMap;
use std::sync::{Arc, Mutex, OnceLock};
use vf_kit::engine::*;

pub struct C45a;

#[derive(Clone, Debug, Serialize, Deserialize)]
pub struct Case {
    pub func: String,
    /// coerced (fixpoint) argument types
    pub types: Vec<Ty>,
    /// per argument: one value per row
    pub cols: Vec<Vec<V>>,
    pub rows: usize,
    /// per argument: pass as `ColumnarValue::Scalar` (only honoured for constant columns)
    pub scalar_mask: Vec<bool>,
    /// session time zone put into `ConfigOptions.execution.time_zone`
    pub tz: Option<String>,
    /// raw (pre-coercion) argument types for the coercion comparison
    pub raw: Vec<Ty>,
    /// per argument: 0 Literal 1 Column 2 MoveTowardsLeafNodes 3 KeepInPlace
    pub placements: Vec<u8>,
    /// per argument: preserves_lex_ordering flag + sort property (0 unordered, 1 singleton, 2 asc, 3 desc nulls first)
    pub props: Vec<(bool, u8)>,
}

fn case_strategy(tier: Tier) -> BoxedStrategy<Case> {
    let cat = catalog();
    let usable: Vec<usize> = (0..cat.len()).filter(|i| !cat[*i].vectors.is_empty()).collect();
    let max_rows: usize = tier.pick(12, 24);
    let pool = full_pool();
    (any::<u16>(), any::<u16>(), 1usize..=max_rows)
        .prop_flat_map(move |(fi, ti, rows)| {
            let info = &cat[usable[pick_index(fi, usable.len())]];
            let types = info.vectors[pick_index(ti, info.vectors.len())].clone();
            let name = info.name.clone();
            let n = types.len();
            let cols: Vec<BoxedStrategy<Vec<V>>> = types
                .iter()
                .enumerate()
                .map(|(i, t)| {
                    let v = arg_value(&name, i, t);
                    let formatish = hint(&name, i, t) != Hint::None;
                    let const_w = if formatish { 7 } else { 4 };
                    prop_oneof![
                        const_w => v.clone().prop_map(move |x| vec![x; rows]),
                        (10 - const_w) => prop::collection::vec(v, rows),
                    ]
                    .boxed()
                })
                .collect();
            let raw_len = if n == 0 { 0..=1usize } else { n..=n };
            let pool2 = pool.clone();
            let raw = prop::collection::vec(any::<u16>(), raw_len).prop_map(move |ix| ix.into_iter().map(|i| pool2[pick_index(i, pool2.len())].clone()).collect::<Vec<Ty>>());
            let tz = prop_oneof![5 => Just(None), 1 => Just(Some("+01:00".to_string())), 1 => Just(Some("America/New_York".to_string())), 1 => Just(Some("UTC".to_string()))];
            (Just(name), Just(types), cols, Just(rows), prop::collection::vec(any::<bool>(), n), tz, raw, prop::collection::vec(0u8..4, n), prop::collection::vec((any::<bool>(), 0u8..4), n))
        })
        .prop_map(|(func, types, mut cols, rows, scalar_mask, tz, raw, placements, props)| {
            shape_fix(&func, &mut cols, rows);
            Case { func, types, cols, rows, scalar_mask, tz, raw, placements, props }
        })
        .boxed()
}

/// element-wise list functions and `map` need per-row lists of matching shapes to succeed
fn shape_fix(func: &str, cols: &mut [Vec<V>], rows: usize) {
    if matches!(func, "cosine_distance" | "inner_product" | "array_add" | "array_subtract" | "array_distance") && cols.len() == 2 {
        for r in 0..rows {
            if r % 4 == 3 {
                continue;
            }
            if let (V::L(a), V::L(b)) = (cols[0][r].clone(), cols[1][r].clone()) {
                let len = a.len().min(b.len());
                cols[0][r] = V::L(a[..len].to_vec());
                cols[1][r] = V::L(b[..len].to_vec());
            }
        }
    }
    if func == "map" && cols.len() == 2 {
        for r in 0..rows {
            let keys = cols[0][r].clone();
            if let (V::L(ks), V::L(vs)) = (&keys, &cols[1][r].clone()) {
                let mut uniq: Vec<V> = vec![];
                for k in ks {
                    if !k.is_null() && !uniq.contains(k) {
                        uniq.push(k.clone());
                    }
                }
                let mut vals = vs.clone();
                vals.resize(uniq.len(), V::Null);
                cols[0][r] = V::L(uniq);
                cols[1][r] = V::L(vals);
            }
        }
    }
}

// ---------------------------------------------------------------------------------------------

/// wrap + force the foreign path
pub fn foreign_scalar(udf: &Arc<ScalarUDF>) -> Result<ScalarUDF, String> {
    let mut ffi = FFI_ScalarUDF::from(Arc::clone(udf));
    ffi.library_marker_id = harness_marker;
    let imp: Arc<dyn ScalarUDFImpl> = (&ffi).into();
    if !imp.as_ref().is::<ForeignScalarUDF>() {
        return Err(format!("marker override did not force the foreign path ({FOREIGN_MARKER_NOTE})"));
    }
    Ok(ScalarUDF::new_from_shared_impl(imp))
}

#[derive(Clone)]
enum Arg {
    Array(ArrayRef),
    Scalar(ScalarValue),
}

struct Out {
    is_scalar: bool,
    len: usize,
    dt: DataType,
    rendered: Vec<String>,
}

fn err_text(e: &DataFusionError) -> String {
    truncate(&e.to_string(), 300)
}

fn invoke(udf: &ScalarUDF, args: &[Arg], arg_fields: &[FieldRef], rows: usize, return_field: &FieldRef, cfg: &Arc<ConfigOptions>) -> Result<Out, String> {
    let cargs: Vec<ColumnarValue> = args
        .iter()
        .map(|a| match a {
            Arg::Array(arr) => ColumnarValue::Array(Arc::clone(arr)),
            Arg::Scalar(s) => ColumnarValue::Scalar(s.clone()),
        })
        .collect();
    let out = udf.invoke_with_args(ScalarFunctionArgs { args: cargs, arg_fields: arg_fields.to_vec(), number_rows: rows, return_field: Arc::clone(return_field), config_options: Arc::clone(cfg) }).map_err(|e| err_text(&e))?;
    Ok(match out {
        ColumnarValue::Array(a) => Out { is_scalar: false, len: a.len(), dt: a.data_type().clone(), rendered: render_all(a.as_ref()) },
        ColumnarValue::Scalar(s) => {
            let a = s.to_array().map_err(|e| format!("scalar result not convertible: {e}"))?;
            Out { is_scalar: true, len: 1, dt: a.data_type().clone(), rendered: render_all(a.as_ref()) }
        }
    })
}

fn field_desc(f: &Field) -> String {
    let mut md: Vec<(&String, &String)> = f.metadata().iter().collect();
    md.sort();
    format!("{}: {} nullable={} metadata={:?}", f.name(), f.data_type(), f.is_nullable(), md)
}

fn placement_of(x: u8) -> ExpressionPlacement {
    match x {
        0 => ExpressionPlacement::Literal,
        1 => ExpressionPlacement::Column,
        2 => ExpressionPlacement::MoveTowardsLeafNodes,
        _ => ExpressionPlacement::KeepInPlace,
    }
}

fn stats() -> &'static Mutex<BTreeMap<String, [u64; 4]>> {
    static S: OnceLock<Mutex<BTreeMap<String, [u64; 4]>>> = OnceLock::new();
    S.get_or_init(|| Mutex::new(BTreeMap::new()))
}

/// slots: 0 cases, 1 native successes compared, 2 non-trivial, 3 scalar-only observations
fn bump(name: &str, slot: usize) {
    if let Ok(mut m) = stats().lock() {
        m.entry(name.to_string()).or_insert([0; 4])[slot] += 1;
    }
}

fn coerce_outcome(udf: &ScalarUDF, types: &[Ty]) -> Result<Vec<DataType>, String> {
    let fields: Vec<FieldRef> = types.iter().enumerate().map(|(i, t)| Arc::new(Field::new(format!("a{i}"), t.dt(), true))).collect();
    fields_with_udf(&fields, udf).map(|fs| fs.iter().map(|f| f.data_type().clone()).collect()).map_err(|e| err_text(&e))
}

impl Property for C45a {
    type Case = Case;
    fn id(&self) -> &'static str {
        "C45"
    }
    fn sub(&self) -> &'static str {
        "c45a"
    }
    fn strategy(&self, tier: Tier) -> BoxedStrategy<Case> {
        case_strategy(tier)
    }
    fn budget(&self, tier: Tier) -> Budget {
        Budget::new(tier.pick(4_800, 1_200_000), tier.pick(8, 16)).min_nontrivial(tier.pick(1_000, 250_000)).discard_cap(0.5)
    }
    fn rule(&self) -> String {
        "function and coerced argument-type vector drawn uniformly from the catalog (all default + nested scalar UDFs, volatile included; vectors = fixpoints of the planner coercion); 1-12 rows (thorough 1-24), each argument \
         constant or varying, values from per-type pools and the literal dictionary, scalar/array mask, session time zone, raw type vector, placements; every case compares native vs ForeignScalarUDF (marker overridden): metadata, coercion, \
         return field, invocation (vs native on the same arguments as arrays), placement / lex ordering / with_updated_config; non-trivial = native all-arrays invocation succeeded with >= 1 non-NULL output and was compared with the foreign result; \
         distinct by case JSON; labels fn=<name> count compared native successes per function"
            .into()
    }
    fn assumptions(&self) -> Vec<String> {
        let mut v = vec![
            "arrow-rs trusted for building inputs and for rendering results; the Arrow C data interface round trip is part of the code under test".to_string(),
            "FFI_ScalarUDF declares array-only argument transport: the foreign call is compared with the native call on the same arguments materialised as arrays; functions that only accept literal arguments are listed (scalar_only_functions), not failed".to_string(),
            "the FFI replaces every signature by Signature::user_defined (documented); coercion results are compared instead of signatures".to_string(),
            "volatile functions (random, uuid, ...): only result variant, length and type are compared".to_string(),
            "error texts are not compared (the FFI prefixes them), only success vs failure".to_string(),
            format!("foreign path forced by overwriting the public library_marker_id field ({FOREIGN_MARKER_NOTE})"),
        ];
        for (n, why) in UNSUPPORTED_INPUT {
            v.push(format!("out of scope: {n} ({why})"));
        }
        v
    }

    fn run(&self, case: &Case) -> CaseResult {
        run_cached(case)
    }

    fn known_signature(&self, case: &Case) -> Option<String> {
        match &run_cached(case).outcome {
            Outcome::Violation(m) => m.strip_prefix("[sig=").and_then(|rest| rest.split(']').next()).map(|s| s.to_string()),
            _ => None,
        }
    }

    fn extra(&self, _tier: Tier, _seed: u64) -> Result<Value, (String, Case)> {
        let cat = catalog();
        let st = stats().lock().map(|m| m.clone()).unwrap_or_default();
        let mut per_fn = serde_json::Map::new();
        let mut zero: Vec<String> = vec![];
        let mut no_vectors: Vec<String> = vec![];
        let mut scalar_only: Vec<String> = vec![];
        for f in cat {
            let s = st.get(&f.name).copied().unwrap_or([0; 4]);
            per_fn.insert(f.name.clone(), json!({"type_vectors": f.vectors.len(), "cases": s[0], "native_ok_compared": s[1], "nontrivial": s[2], "scalar_only_observed": s[3]}));
            if f.vectors.is_empty() {
                no_vectors.push(f.name.clone());
            }
            if s[1] == 0 {
                zero.push(f.name.clone());
            }
            if s[3] > 0 {
                scalar_only.push(f.name.clone());
            }
        }
        Ok(json!({"per_function": per_fn, "functions_with_zero_successes": zero, "functions_without_type_vectors": no_vectors, "functions_in_scope": cat.len(), "scalar_only_functions": scalar_only}))
    }
}

thread_local! {
    static LAST: std::cell::RefCell<Option<(u64, CaseResult)>> = const { std::cell::RefCell::new(None) };
}

/// `known_signature` has to evaluate the case to know its signature; the result is reused by `run`
fn run_cached(case: &Case) -> CaseResult {
    let fp = serde_json::to_vec(case).map(|b| fnv1a(&b)).unwrap_or(0);
    if let Some(r) = LAST.with(|l| l.borrow().as_ref().filter(|(f, _)| *f == fp).map(|(_, r)| r.clone())) {
        return r;
    }
    let r = run_case(case);
    LAST.with(|l| *l.borrow_mut() = Some((fp, r.clone())));
    r
}

fn run_case(case: &Case) -> CaseResult {
    let Some(info) = find_fn(&case.func) else { return CaseResult::discard("unknown function") };
    let name = info.name.as_str();
    let native: &Arc<ScalarUDF> = &info.udf;
    let n = case.types.len();
    let rows = case.rows;
    if rows == 0 || case.cols.len() != n || case.cols.iter().any(|c| c.len() != rows) || case.scalar_mask.len() != n || case.placements.len() != n || case.props.len() != n {
        return CaseResult::discard("malformed case");
    }
    bump(name, 0);
    crate::set_current_case("c45a", case);
    let mut labels: Vec<String> = vec![];
    let sig = format!("{name}({})", case.types.iter().map(|t| t.short()).collect::<Vec<_>>().join(","));
    macro_rules! violation {
        ($($arg:tt)*) => {
            return CaseResult::violation(format!("{sig}: {}", format!($($arg)*))).labels(labels.clone())
        };
    }
    let foreign = match foreign_scalar(native) {
        Ok(f) => f,
        Err(e) => violation!("{e}"),
    };

    // ---- M metadata
    if foreign.name() != native.name() {
        violation!("name: native {:?} foreign {:?}", native.name(), foreign.name());
    }
    if foreign.aliases() != native.aliases() {
        violation!("aliases: native {:?} foreign {:?}", native.aliases(), foreign.aliases());
    }
    if foreign.signature().volatility != native.signature().volatility {
        violation!("volatility: native {:?} foreign {:?}", native.signature().volatility, foreign.signature().volatility);
    }
    if foreign.short_circuits() != native.short_circuits() {
        violation!("short_circuits: native {} foreign {}", native.short_circuits(), foreign.short_circuits());
    }
    if !matches!(foreign.signature().type_signature, TypeSignature::UserDefined) {
        violation!("foreign signature is {:?}, the FFI documents user_defined", foreign.signature().type_signature);
    }

    // ---- C coercion
    for (what, tv) in [("raw", &case.raw), ("coerced", &case.types)] {
        if tv.is_empty() {
            continue;
        }
        let a = coerce_outcome(native, tv);
        let b = crate::foreign(|| coerce_outcome(&foreign, tv));
        let raw_dts: Vec<DataType> = tv.iter().map(|t| t.dt()).collect();
        match crate::coercion_agree(&a, &b, &raw_dts) {
            Ok(l) => labels.push(format!("coerce:{what}:{l}")),
            Err(e) => violation!("coercion of {what} types {:?}: {e}", tv.iter().map(|t| t.short()).collect::<Vec<_>>()),
        }
    }

    // ---- arguments
    let constant: Vec<bool> = case.cols.iter().map(|c| c.iter().all(|v| *v == c[0])).collect();
    let mut given: Vec<Arg> = vec![];
    let mut arrays: Vec<Arg> = vec![];
    for i in 0..n {
        let arr = match to_array(&case.cols[i], &case.types[i]) {
            Ok(a) => a,
            Err(e) => return CaseResult::discard(format!("cannot build argument: {}", truncate(&e, 60))),
        };
        if constant[i] && case.scalar_mask[i] {
            let st = match &case.types[i] {
                Ty::Dict(_, inner) => inner.as_ref(),
                t => t,
            };
            let s = to_scalar(&case.cols[i][0], st);
            // what ForeignScalarUDF does with a scalar argument
            match s.to_array_of_size(rows) {
                Ok(a) => arrays.push(Arg::Array(a)),
                Err(e) => return CaseResult::discard(format!("cannot expand scalar: {}", truncate(&e.to_string(), 60))),
            }
            given.push(Arg::Scalar(s));
        } else {
            arrays.push(Arg::Array(Arc::clone(&arr)));
            given.push(Arg::Array(arr));
        }
    }
    let any_scalar = given.iter().any(|a| matches!(a, Arg::Scalar(_)));
    if any_scalar {
        labels.push("args:some-scalar".into());
    }
    let arg_fields: Vec<FieldRef> = given
        .iter()
        .enumerate()
        .map(|(i, a)| match a {
            Arg::Array(arr) => Arc::new(Field::new(format!("a{i}"), arr.data_type().clone(), true)),
            Arg::Scalar(s) => Arc::new(Field::new("lit", s.data_type(), s.is_null())),
        })
        .collect();
    let scalars: Vec<Option<&ScalarValue>> = given
        .iter()
        .map(|a| match a {
            Arg::Scalar(s) => Some(s),
            _ => None,
        })
        .collect();

    // ---- R return field
    let rf_native = match crate::guard(|| native.return_field_from_args(ReturnFieldArgs { arg_fields: &arg_fields, scalar_arguments: &scalars })) {
        Ok(r) => r,
        Err(p) => {
            labels.push(format!("native-panic:fn={name}:{}", truncate(&p, 40)));
            return CaseResult::pass().labels(labels);
        }
    };
    // A return field that arrow's C data interface cannot export (a NUL byte inside a time zone, a field name or a
    // metadata entry taken from a literal argument: arrow-schema ffi.rs builds CStrings with `unwrap()`) makes the
    // `extern "C"` entry point panic, i.e. ABORT the process. Probe the export natively instead of crossing the FFI.
    if let Ok(f) = &rf_native {
        if crate::guard(|| arrow::ffi::FFI_ArrowSchema::try_from(f.as_ref()).is_ok()).is_err() {
            labels.push(format!("c-schema-export-panics:fn={name}"));
            return CaseResult::violation(format!(
                "[sig=c-schema-export-panics-on-nul] {sig}: native return_field_from_args succeeds with {:?}, but exporting that field through the Arrow C data interface panics (NUL byte in a string that becomes part of the type); inside FFI_ScalarUDF's extern \"C\" return_field_from_args this aborts the process instead of returning an error; literal arguments: {:?}",
                f.data_type(),
                first_row(case)
            ))
            .labels(labels);
        }
    }
    let rf_foreign = crate::foreign(|| foreign.return_field_from_args(ReturnFieldArgs { arg_fields: &arg_fields, scalar_arguments: &scalars }));
    let return_field = match (rf_native, rf_foreign) {
        (Ok(a), Ok(b)) => {
            if field_desc(&a) != field_desc(&b) {
                violation!("return_field_from_args differs: native [{}] foreign [{}]", field_desc(&a), field_desc(&b));
            }
            a
        }
        (Err(_), Err(_)) => {
            labels.push("return-field:both-reject".into());
            return CaseResult::pass().labels(labels);
        }
        (Ok(a), Err(e)) => violation!("return_field_from_args: native Ok [{}], foreign Err {}", field_desc(&a), err_text(&e)),
        (Err(e), Ok(b)) => violation!("return_field_from_args: native Err {}, foreign Ok [{}]", err_text(&e), field_desc(&b)),
    };

    // ---- P placement, lex ordering, with_updated_config
    let mut cfg = ConfigOptions::default();
    if let Some(tz) = &case.tz {
        cfg.execution.time_zone = Some(tz.clone());
        labels.push("tz:set".into());
    }
    let placements: Vec<ExpressionPlacement> = case.placements.iter().map(|p| placement_of(*p)).collect();
    let (pa, pb) = (native.placement(&placements), crate::foreign(|| foreign.placement(&placements)));
    if pa != pb {
        violation!("placement({placements:?}): native {pa:?} foreign {pb:?}");
    }
    let props: Vec<ExprProperties> = case
        .props
        .iter()
        .zip(case.types.iter())
        .map(|((plo, sp), t)| {
            let sort = match sp {
                0 => SortProperties::Unordered,
                1 => SortProperties::Singleton,
                2 => SortProperties::Ordered(arrow::compute::SortOptions { descending: false, nulls_first: false }),
                _ => SortProperties::Ordered(arrow::compute::SortOptions { descending: true, nulls_first: true }),
            };
            let range = Interval::make_unbounded(&t.dt()).or_else(|_| Interval::make_unbounded(&DataType::Null));
            let mut p = ExprProperties::new_unknown().with_order(sort).with_preserves_lex_ordering(*plo);
            if let Ok(r) = range {
                p = p.with_range(r);
            }
            p
        })
        .collect();
    match (native.preserves_lex_ordering(&props), crate::foreign(|| foreign.preserves_lex_ordering(&props))) {
        (Ok(a), Ok(b)) if a == b => {
            if a {
                labels.push("lex-ordering:true".into());
            }
        }
        (Err(_), Err(_)) => labels.push("lex-ordering:both-reject".into()),
        (a, b) => {
            // the interval of exotic types may not be transportable: only demand agreement when the conversion itself works
            let b_text = format!("{b:?}");
            if b_text.contains("Interval") || b_text.contains("interval") {
                labels.push("lex-ordering:interval-untransportable".into());
            } else {
                violation!("preserves_lex_ordering: native {a:?} foreign {b:?}");
            }
        }
    }
    match (native.inner().with_updated_config(&cfg), crate::foreign(|| foreign.inner().with_updated_config(&cfg))) {
        (None, None) => {}
        (Some(a), Some(b)) => {
            labels.push("with_updated_config:some".into());
            if a.name() != b.name() {
                violation!("with_updated_config: names differ {} vs {}", a.name(), b.name());
            }
        }
        (a, b) => violation!("with_updated_config: native is_some={} foreign is_some={}", a.is_some(), b.is_some()),
    }

    // ---- I invocation
    let cfg = Arc::new(cfg);
    let volatile = native.signature().volatility == Volatility::Volatile;
    macro_rules! native_invoke {
        ($args:expr) => {
            match crate::guard(|| invoke(native, $args, &arg_fields, rows, &return_field, &cfg)) {
                Ok(r) => r,
                Err(p) => {
                    // the same panic inside the extern "C" entry point would abort the process: do not call the foreign side
                    labels.push(format!("native-panic:fn={name}:{}", truncate(&p, 40)));
                    return CaseResult::pass().labels(labels);
                }
            }
        };
    }
    // G: the arguments as given (what a native caller gets); A: the same arguments materialised as arrays (what the
    // provider side of the FFI sees today)
    let nat_given = native_invoke!(&given);
    let nat_arrays = if any_scalar { native_invoke!(&arrays) } else { nat_given.as_ref().map(|o| Out { is_scalar: o.is_scalar, len: o.len, dt: o.dt.clone(), rendered: o.rendered.clone() }).map_err(|e| e.clone()) };
    let for_given = crate::foreign(|| invoke(&foreign, &given, &arg_fields, rows, &return_field, &cfg));
    // None = agrees; Some(why) = differs
    let differs = |n: &Result<Out, String>, f: &Result<Out, String>| -> Option<String> {
        match (n, f) {
            (Err(_), Err(_)) => None,
            (Ok(a), Err(e)) => Some(format!("native Ok ({} x {}), foreign Err {e}", a.len, a.dt)),
            (Err(e), Ok(b)) => Some(format!("native Err {e}, foreign Ok ({} x {})", b.len, b.dt)),
            (Ok(a), Ok(b)) => {
                if a.is_scalar != b.is_scalar {
                    Some(format!("result variant differs: native scalar={} foreign scalar={}", a.is_scalar, b.is_scalar))
                } else if a.len != b.len {
                    Some(format!("result length differs: native {} foreign {} (number_rows={rows})", a.len, b.len))
                } else if a.dt != b.dt {
                    Some(format!("result type differs: native {} foreign {}", a.dt, b.dt))
                } else if !volatile && a.rendered != b.rendered {
                    let i = (0..a.rendered.len()).find(|i| a.rendered[*i] != b.rendered[*i]).unwrap_or(0);
                    Some(format!("row {i} differs: native {} foreign {}; arguments of that row: {:?}", a.rendered[i], b.rendered[i], case.cols.iter().map(|c| &c[i.min(rows - 1)]).collect::<Vec<_>>()))
                } else {
                    None
                }
            }
        }
    };
    let vs_arrays = differs(&nat_arrays, &for_given);
    let vs_given = differs(&nat_given, &for_given);
    let reference = match (&vs_arrays, &vs_given) {
        (None, _) => {
            if nat_given.is_ok() && for_given.is_err() {
                // behaves as the array-only transport dictates, but the component the caller wrapped works natively
                labels.push("scalarness-matters".into());
                bump(name, 3);
                return CaseResult::violation(format!(
                    "[sig=scalar-args-lost] {sig}: the native function accepts these arguments (literal arguments as scalars) but fails through the FFI, which expands every scalar argument to an array: native Ok, foreign Err {}; rows={rows} scalar arguments={:?} first row={:?}",
                    for_given.as_ref().err().cloned().unwrap_or_default(),
                    given.iter().map(|a| matches!(a, Arg::Scalar(_))).collect::<Vec<_>>(),
                    first_row(case)
                ))
                .labels(labels);
            }
            &nat_arrays
        }
        (Some(_), None) => {
            labels.push("foreign-preserves-scalars".into());
            &nat_given
        }
        (Some(a), Some(g)) => {
            if any_scalar {
                violation!("invoke: foreign result matches neither native call: vs arguments-as-arrays: {a}; vs arguments-as-given: {g}; rows={rows} first row={:?}", first_row(case))
            } else {
                violation!("invoke: {g}; rows={rows} first row={:?}", first_row(case))
            }
        }
    };
    match reference {
        Err(_) => {
            labels.push("invoke:both-fail".into());
            CaseResult::pass().labels(labels)
        }
        Ok(a) => {
            bump(name, 1);
            labels.push(format!("fn={name}"));
            if volatile {
                labels.push("volatile".into());
            }
            if a.is_scalar {
                labels.push("result:scalar".into());
            }
            let non_null = a.rendered.iter().filter(|r| *r != "NULL").count();
            let nt = non_null > 0;
            if nt {
                bump(name, 2);
            }
            CaseResult::pass().labels(labels).nontrivial(nt)
        }
    }
}

fn first_row(case: &Case) -> Vec<&V> {
    case.cols.iter().map(|c| &c[0]).collect()
}
