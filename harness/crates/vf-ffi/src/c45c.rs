//! C45 part c — table providers, table functions, execution plans and record-batch streams passed through
//! the FFI behave as native, under generated SQL (`refsql` C01-style queries) and direct scans.
//!
//! One case = tables t0..t2 (refsql standard schema), a generated query, a session shape (target / MemTable
//! partitions), a direct-scan probe (table, projection, filters, limit), and a table-function call. Two
//! contexts are built: NATIVE (tables registered as the harness provider `Recorder(MemTable)`, which answers
//! `Unsupported` to every filter when the case says the FFI wrapper has no pushdown support, so both contexts
//! plan alike and only FFI effects can differ) and FOREIGN:
//!   * every table is `FFI_TableProvider::new(Recorder(MemTable), pushdown, None, ctx, None)` with the public
//!     `library_marker_id` overridden, converted with `Arc<dyn TableProvider>::from(&ffi)` (asserted to be a
//!     `ForeignTableProvider`);
//!   * optionally every scalar / aggregate / window function of the session is replaced by its
//!     `Foreign*UDF` wrapper (same forcing), so generated queries run real plans over FFI functions;
//!   * `generate_series` / `range` are replaced by `ForeignTableFunction` wrappers.
//! `Recorder` applies pushed filters exactly (FilterExec) and the projection, and records the arguments it
//! received, so dropped / reordered / altered `scan` arguments are visible.
//!
//! Oracle (differential, native vs foreign):
//!  S  direct scan: `schema()`, `table_type()`, `statistics()`, `supports_filters_pushdown(filters)` (when the
//!     FFI provider was created with pushdown support; otherwise all `Unsupported` as documented), and
//!     `scan(session, projection, filters, limit)`: recorded projection and limit identical to those sent,
//!     same number of filters, plan schema equal, same row multiset; errors iff native errors.
//!  Q  SQL: the query planned and executed in the foreign context gives the same row multiset (floats rel
//!     1e-9) as in the native context; fails iff native fails. Only queries that are deterministic on the
//!     data (`refsql::deterministic_on`) are compared.
//!  P  plans: the NATIVE physical plan of the query is wrapped (`FFI_ExecutionPlan::new`, marker overridden,
//!     `ForeignExecutionPlan::try_from`): name, children count, schema equal; all partitions executed through
//!     `ForeignExecutionPlan::execute` (→ `FFI_RecordBatchStream`, every batch crosses the Arrow C data
//!     interface) give the native row multiset and each stream reports the plan schema; for EVERY node of
//!     the plan tree the declared properties converted through `FFI_PlanProperties` with ITS marker
//!     overridden (`PlanProperties::try_from`) equal the native ones in what the struct carries: schema,
//!     output partitioning (kind, count, hash expressions, range split points), output ordering,
//!     emission type, boundedness. (Equivalence classes / constants are not part of `FFI_PlanProperties`.)
//!  T  table functions: `SELECT * FROM generate_series|range(args)` agrees (rows, or failure on both sides).
//!
//! Non-trivial: the query returned rows natively and was compared through a foreign plan with at least one
//! foreign table scan, or the direct scan had a non-trivial projection / filter / limit.
//!
//! GENUINE FINDINGS (open in /verif/known_findings.json, cases under regressions/C45/c45c/):
//!  * `udaf-default-value-not-carried` — wrong rows with a foreign `count` in a decorrelated scalar subquery, and an
//!    execution error ("declared as non-nullable but contains null values") for `count(..) OVER (.. ROWS BETWEEN
//!    UNBOUNDED PRECEDING AND 1 PRECEDING)`, whose empty first frame takes the aggregate's default_value (see c45b.rs). Attribution is verified in the run: the same case with the aggregates whose value over no
//!    rows is not NULL kept native must agree with the native rows, otherwise it is an ordinary violation.
//!  * `ffi-provider-unserializable-filter` — `ForeignTableProvider::supports_filters_pushdown` serialises the
//!    candidate filters with datafusion-proto and propagates the failure; `x = ANY (subquery)` in a select list
//!    produces an `outer_ref(..)` candidate → "Optimizer rule 'push_down_filter' failed .. Proto serialization
//!    error: outer_ref(r3.id) is not yet supported", while the provider used natively plans fine. Attribution is
//!    verified in the run (same case with pushdown disabled must plan and agree). Repair:
//!    fixes/C45-ffi-provider-unserializable-filter.diff.
//!
//! Sensitivity probes (probes/probes.diff via tools/mutrun, quick tier):
//!  p3  FFI_Partitioning maps Hash to UnknownPartitioning   → VIOLATION "plan properties of AggregateExec differ across the FFI"
//!  p4  ForeignTableProvider::scan drops the limit           → VIOLATION "scan arguments changed across the FFI: sent .. limit: Some(0) received .. None"
//!  p5  .. sorts the projection                              → VIOLATION "scan arguments changed .. projection: Some([1, 0]) received Some([0, 1])"
//!  p13 ForeignTableFunction drops the last argument         → VIOLATION "SELECT * FROM range(DATE .., DATE .., INTERVAL '1' DAY): native Ok(9) foreign Err(..)"
//!  p15 provider answers supports_filters_pushdown reversed  → VIOLATION "native [Exact, Inexact] foreign [Inexact, Exact]"
//!  p16 ForeignExecutionPlan::execute always asks partition 0 → RepartitionExec panics inside the extern "C" entry: process
//!      abort (exit 134 → `./check` exit 2): detected as a crash, not as a verdict
//!  p17 FFI_PlanProperties drops the output ordering         → VIOLATION "plan properties of SortExec differ across the FFI"
//!  p18 EmissionType::Final sent as Incremental              → VIOLATION "plan properties of ProjectionExec differ across the FFI"
//!
//! Side observation (not an FFI matter, C01/C03 territory): with a provider WITHOUT filter pushdown (plain MemTable,
//! reproducible in datafusion-cli) `WITH c0 AS (..) SELECT (0 = (r3.id + r3.id)) AS k3 FROM t0 r3 WHERE NULL IN (SELECT ..)
//! UNION ((SELECT (r7.id = r7.id) AS k4 FROM t0 r7) UNION (SELECT (r8.id = r8.id) AS k5 FROM t0 r8))` over empty tables
//! fails with `Internal error: Physical input schema should be the same .. (physical) k4 vs (logical) k3`; the native
//! reference provider therefore mirrors the pushdown capability of the FFI wrapper so both sides plan alike.
//!
//! Soundness notes: functions whose behaviour lives in `simplify()` (coalesce, nvl, nvl2, now,
//! current_date, current_time, ...) cannot work through `ForeignScalarUDF`, which does not carry `simplify`;
//! they are left native in the foreign context (listed in `assumptions`). Error texts are not compared.
use crate::vals::render_all;
use crate::{FOREIGN_MARKER_NOTE, harness_marker};
use arrow::array::{Array, RecordBatch};
use arrow::datatypes::SchemaRef;
use async_trait::async_trait;
use datafusion::catalog::{MemTable, Session, TableFunctionImpl, TableProvider};
use datafusion::common::{DFSchema, DataFusionError, Result as DFResult, ScalarValue};
use datafusion::execution::{TaskContext, TaskContextProvider};
use datafusion::logical_expr::{AggregateUDF, Expr, Operator, ScalarUDF, TableProviderFilterPushDown, TableType, WindowUDF, col, lit};
use datafusion::physical_expr::PhysicalExpr;
use datafusion::physical_plan::filter::{FilterExec, FilterExecBuilder};
use datafusion::physical_plan::{ExecutionPlan, ExecutionPlanProperties, Partitioning, PlanProperties};
use datafusion::prelude::SessionContext;
use datafusion_ffi::execution_plan::{FFI_ExecutionPlan, ForeignExecutionPlan};
use datafusion_ffi::table_provider::{FFI_TableProvider, ForeignTableProvider};
use datafusion_ffi::udtf::{FFI_TableFunction, ForeignTableFunction};
use futures::{FutureExt, StreamExt};
use proptest::prelude::*;
use serde::{Deserialize, Serialize};
use std::sync::{Arc, Mutex};
use vf_df::refsql::{self, Table, Value};
use vf_df::{Variant, batches_to_rows};
use vf_kit::engine::*;

pub struct C45c;

#[derive(Clone, Debug, Serialize, Deserialize)]
pub struct FilterSpec {
    /// column index into (id, a, b, s, f, p)
    pub col: u8,
    /// 0 = | 1 <> | 2 < | 3 <= | 4 > | 5 >= | 6 IS NULL | 7 IS NOT NULL | 8 BETWEEN | 9 IN | 10 LIKE / abs() |
    /// 11 NOT(col = lit) | 12 (col = lit OR col IS NULL)
    pub kind: u8,
    pub x: i8,
    pub y: i8,
}

#[derive(Clone, Debug, Serialize, Deserialize)]
pub struct ScanProbe {
    pub table: u16,
    pub projection: Option<Vec<u8>>,
    pub filters: Vec<FilterSpec>,
    pub limit: Option<u8>,
}

#[derive(Clone, Debug, Serialize, Deserialize)]
pub struct TableFnCall {
    pub generate_series: bool,
    pub args: Vec<i8>,
    /// 0 integers, 1 dates with an interval step, 2 timestamps with an interval step
    pub flavour: u8,
}

#[derive(Clone, Debug, Serialize, Deserialize)]
pub struct Case {
    pub tables: Vec<Table>,
    pub query: refsql::Query,
    pub target_partitions: u8,
    pub mem_partitions: u8,
    pub batch_rows: Option<u8>,
    pub foreign_fns: bool,
    pub pushdown: bool,
    pub scan: ScanProbe,
    pub tf: TableFnCall,
}

/// functions whose result is produced by `simplify()` at planning time; `ForeignScalarUDF` has no
/// `simplify`, so they stay native in the foreign context
pub const SIMPLIFY_ONLY: &[&str] = &["coalesce", "nvl", "nvl2", "ifnull", "now", "current_timestamp", "current_date", "today", "current_time"];

fn case_strategy(tier: Tier) -> BoxedStrategy<Case> {
    let mut cfg = refsql::r#gen::GenConfig::standard(3, tier.pick(8, 24), tier.pick(2, 3));
    cfg.topk_ties = false;
    cfg.unguarded_div_pct = 0;
    cfg.recursive_ctes = false;
    let filter = (0u8..6, 0u8..13, -3i8..6, -3i8..6).prop_map(|(col, kind, x, y)| FilterSpec { col, kind, x, y });
    let scan = (any::<u16>(), prop::option::weighted(0.7, prop::collection::vec(0u8..6, 0..5)), prop::collection::vec(filter, 0..4), prop::option::weighted(0.5, 0u8..12)).prop_map(|(table, projection, filters, limit)| ScanProbe { table, projection, filters, limit });
    let tf = (any::<bool>(), prop::collection::vec(-4i8..12, 1..=3), 0u8..3).prop_map(|(generate_series, args, flavour)| TableFnCall { generate_series, args, flavour });
    (refsql::r#gen::case_strategy(&cfg), 1u8..=4, 1u8..=3, prop::option::weighted(0.5, 1u8..6), prop::bool::weighted(0.7), prop::bool::weighted(0.7), scan, tf)
        .prop_map(|(sc, target_partitions, mem_partitions, batch_rows, foreign_fns, pushdown, scan, tf)| Case { tables: sc.tables, query: sc.query, target_partitions, mem_partitions, batch_rows, foreign_fns, pushdown, scan, tf })
        .boxed()
}

// ---------------------------------------------------------------------------------------------
// the harness provider

#[derive(Clone, Debug, PartialEq)]
pub struct ScanCall {
    pub projection: Option<Vec<usize>>,
    pub filters: Vec<String>,
    pub limit: Option<usize>,
}

#[derive(Debug)]
pub struct Recorder {
    inner: MemTable,
    calls: Arc<Mutex<Vec<ScanCall>>>,
    /// false: answers `Unsupported` for every filter — what a `ForeignTableProvider` created without pushdown
    /// support answers — so the native and the foreign context plan the same way and only FFI effects differ
    pushdown: bool,
}

#[async_trait]
impl TableProvider for Recorder {
    fn schema(&self) -> SchemaRef {
        self.inner.schema()
    }
    fn table_type(&self) -> TableType {
        TableType::Base
    }
    fn statistics(&self) -> Option<datafusion::common::Statistics> {
        self.inner.statistics()
    }
    fn supports_filters_pushdown(&self, filters: &[&Expr]) -> DFResult<Vec<TableProviderFilterPushDown>> {
        if !self.pushdown {
            return Ok(vec![TableProviderFilterPushDown::Unsupported; filters.len()]);
        }
        // three classes, so a permutation or truncation of the answer is visible
        Ok(filters
            .iter()
            .map(|f| match f {
                Expr::IsNull(_) | Expr::IsNotNull(_) => TableProviderFilterPushDown::Inexact,
                Expr::Like(_) => TableProviderFilterPushDown::Unsupported,
                _ => TableProviderFilterPushDown::Exact,
            })
            .collect())
    }
    async fn scan(&self, state: &dyn Session, projection: Option<&[usize]>, filters: &[Expr], limit: Option<usize>) -> DFResult<Arc<dyn ExecutionPlan>> {
        if let Ok(mut c) = self.calls.lock() {
            c.push(ScanCall { projection: projection.map(|p| p.to_vec()), filters: filters.iter().map(|f| f.to_string()).collect(), limit });
        }
        let full = self.inner.scan(state, None, &[], None).await?;
        if filters.is_empty() {
            return self.inner.scan(state, projection, &[], None).await;
        }
        let df_schema = DFSchema::try_from(self.inner.schema().as_ref().clone())?;
        let mut pred: Option<Expr> = None;
        for f in filters {
            pred = Some(match pred {
                None => f.clone(),
                Some(p) => p.and(f.clone()),
            });
        }
        let pred = pred.unwrap_or_else(|| lit(true));
        let phys: Arc<dyn PhysicalExpr> = state.create_physical_expr(pred, &df_schema)?;
        let filter: FilterExec = FilterExecBuilder::new(phys, full).apply_projection(projection.map(|p| p.to_vec()))?.build()?;
        Ok(Arc::new(filter))
    }
}

fn build_filter(f: &FilterSpec) -> Expr {
    // (id, a, b) BIGINT, s VARCHAR, f DOUBLE, p BOOLEAN
    let names = ["id", "a", "b", "s", "f", "p"];
    let c = (f.col as usize).min(5);
    let column = col(names[c]);
    let l = |v: i8| -> Expr {
        match c {
            0..=2 => lit(v as i64),
            3 => lit(["", "a", "b", "ab", "é", "x", "abc", "B", "a%"][(v.rem_euclid(9)) as usize]),
            4 => lit(v as f64 / 2.0),
            _ => lit(v % 2 == 0),
        }
    };
    let cmp = |op: Operator| Expr::BinaryExpr(datafusion::logical_expr::BinaryExpr::new(Box::new(column.clone()), op, Box::new(l(f.x))));
    match f.kind {
        0 => cmp(Operator::Eq),
        1 => cmp(Operator::NotEq),
        2 => cmp(Operator::Lt),
        3 => cmp(Operator::LtEq),
        4 => cmp(Operator::Gt),
        5 => cmp(Operator::GtEq),
        6 => column.is_null(),
        7 => column.is_not_null(),
        8 => column.between(l(f.x.min(f.y)), l(f.x.max(f.y))),
        9 => column.in_list(vec![l(f.x), l(f.y), l(f.x.wrapping_add(1))], f.y % 2 == 0),
        10 => match c {
            3 => column.like(lit(["a%", "%b", "_", "%", "a_c", "é%"][(f.x.rem_euclid(6)) as usize])),
            0..=2 | 4 => datafusion::functions::math::expr_fn::abs(column).gt(l(f.x)),
            _ => column.is_true(),
        },
        11 => Expr::Not(Box::new(cmp(Operator::Eq))),
        _ => cmp(Operator::Eq).or(column.is_null()),
    }
}

// ---------------------------------------------------------------------------------------------
// rows

fn rows_of(batches: &[RecordBatch]) -> Vec<Vec<Value>> {
    batches_to_rows(batches)
}

fn same_rows(a: &[Vec<Value>], b: &[Vec<Value>]) -> Option<String> {
    refsql::cmp::multiset_diff(a, b)
}

async fn collect_stream(mut s: datafusion::execution::SendableRecordBatchStream) -> DFResult<(SchemaRef, Vec<RecordBatch>)> {
    let schema = s.schema();
    let mut out = vec![];
    while let Some(b) = s.next().await {
        out.push(b?);
    }
    Ok((schema, out))
}

async fn execute_all(plan: &Arc<dyn ExecutionPlan>, ctx: Arc<TaskContext>) -> DFResult<(Vec<SchemaRef>, Vec<RecordBatch>)> {
    let n = plan.output_partitioning().partition_count();
    let mut schemas = vec![];
    let mut out = vec![];
    // start every partition before draining any (repartition / shared-state operators expect that)
    let mut streams = vec![];
    for p in 0..n {
        streams.push(plan.execute(p, Arc::clone(&ctx))?);
    }
    let results = futures::future::join_all(streams.into_iter().map(collect_stream)).await;
    for r in results {
        let (s, b) = r?;
        schemas.push(s);
        out.extend(b);
    }
    Ok((schemas, out))
}

fn schema_desc(s: &SchemaRef) -> String {
    let mut md: Vec<(&String, &String)> = s.metadata().iter().collect();
    md.sort();
    format!(
        "[{}] md={md:?}",
        s.fields()
            .iter()
            .map(|f| {
                let mut fm: Vec<(&String, &String)> = f.metadata().iter().collect();
                fm.sort();
                format!("{}:{}{}{}", f.name(), f.data_type(), if f.is_nullable() { "?" } else { "" }, if fm.is_empty() { String::new() } else { format!("{fm:?}") })
            })
            .collect::<Vec<_>>()
            .join(", ")
    )
}

fn partitioning_desc(p: &Partitioning) -> String {
    match p {
        Partitioning::RoundRobinBatch(n) => format!("RoundRobin({n})"),
        Partitioning::Hash(exprs, n) => format!("Hash([{}], {n})", exprs.iter().map(|e| e.to_string()).collect::<Vec<_>>().join(", ")),
        Partitioning::UnknownPartitioning(n) => format!("Unknown({n})"),
        other => format!("{other:?}"),
    }
}

/// the part of `PlanProperties` that `FFI_PlanProperties` carries
fn props_desc(p: &PlanProperties) -> String {
    format!(
        "schema={} partitioning={} ordering={} emission={:?} boundedness={:?}",
        schema_desc(p.eq_properties.schema()),
        partitioning_desc(p.output_partitioning()),
        p.output_ordering().map(|o| o.to_string()).unwrap_or_else(|| "none".into()),
        p.emission_type,
        p.boundedness
    )
}

fn forced_properties(plan: &Arc<dyn ExecutionPlan>) -> Result<PlanProperties, String> {
    let ffi = FFI_ExecutionPlan::new(Arc::clone(plan), None);
    let mut props = unsafe { (ffi.properties)(&ffi) };
    props.library_marker_id = harness_marker;
    PlanProperties::try_from(props).map_err(|e| e.to_string())
}

fn walk(plan: &Arc<dyn ExecutionPlan>, out: &mut Vec<Arc<dyn ExecutionPlan>>) {
    out.push(Arc::clone(plan));
    for c in plan.children() {
        walk(c, out);
    }
}

// ---------------------------------------------------------------------------------------------
// contexts

struct Ctxs {
    native: Arc<SessionContext>,
    foreign: Arc<SessionContext>,
    native_calls: Vec<Arc<Mutex<Vec<ScanCall>>>>,
    foreign_calls: Vec<Arc<Mutex<Vec<ScanCall>>>>,
    native_tables: Vec<Arc<dyn TableProvider>>,
    foreign_tables: Vec<Arc<dyn TableProvider>>,
}

fn recorder(t: &Table, v: &Variant, pushdown: bool) -> Result<(Arc<Recorder>, Arc<Mutex<Vec<ScanCall>>>), String> {
    let inner = vf_df::mem_table(t, v)?;
    let calls = Arc::new(Mutex::new(vec![]));
    Ok((Arc::new(Recorder { inner, calls: Arc::clone(&calls), pushdown }), calls))
}

fn build(case: &Case, v: &Variant, keep_native_nonnull_defaults: bool) -> Result<Ctxs, String> {
    let native = Arc::new(vf_df::build_context(v, |b| b).map_err(|e| e.to_string())?);
    let foreign = Arc::new(vf_df::build_context(v, |b| b).map_err(|e| e.to_string())?);
    let tcp = Arc::clone(&foreign) as Arc<dyn TaskContextProvider>;
    let mut c = Ctxs { native: Arc::clone(&native), foreign: Arc::clone(&foreign), native_calls: vec![], foreign_calls: vec![], native_tables: vec![], foreign_tables: vec![] };
    for t in &case.tables {
        let (rn, cn) = recorder(t, v, case.pushdown)?;
        native.register_table(t.name.as_str(), Arc::clone(&rn) as Arc<dyn TableProvider>).map_err(|e| e.to_string())?;
        c.native_calls.push(cn);
        c.native_tables.push(rn);
        let (rf, cf) = recorder(t, v, true)?;
        let mut ffi = FFI_TableProvider::new(rf, case.pushdown, None, &tcp, None);
        ffi.library_marker_id = harness_marker;
        let fp: Arc<dyn TableProvider> = (&ffi).into();
        if !fp.is::<ForeignTableProvider>() {
            return Err(format!("VIOLATION-SETUP marker override did not force the foreign table provider ({FOREIGN_MARKER_NOTE})"));
        }
        foreign.register_table(t.name.as_str(), Arc::clone(&fp)).map_err(|e| e.to_string())?;
        c.foreign_calls.push(cf);
        c.foreign_tables.push(fp);
    }
    if case.foreign_fns {
        let state = foreign.state();
        let mut sf: Vec<Arc<ScalarUDF>> = state.scalar_functions().values().cloned().collect();
        sf.sort_by(|a, b| a.name().cmp(b.name()));
        sf.dedup_by(|a, b| a.name() == b.name());
        for f in sf {
            if SIMPLIFY_ONLY.contains(&f.name()) {
                continue;
            }
            foreign.register_udf(crate::c45a::foreign_scalar(&f)?);
        }
        let mut af: Vec<Arc<AggregateUDF>> = state.aggregate_functions().values().cloned().collect();
        af.sort_by(|a, b| a.name().cmp(b.name()));
        af.dedup_by(|a, b| a.name() == b.name());
        for f in af {
            // diagnosis mode: aggregates whose value over no rows is not NULL (count) stay native
            if keep_native_nonnull_defaults && f.default_value(&arrow::datatypes::DataType::Int64).map(|d| !d.is_null()).unwrap_or(false) {
                continue;
            }
            foreign.register_udaf(crate::c45b::foreign_udaf(&f)?.1);
        }
        let mut wf: Vec<Arc<WindowUDF>> = state.window_functions().values().cloned().collect();
        wf.sort_by(|a, b| a.name().cmp(b.name()));
        wf.dedup_by(|a, b| a.name() == b.name());
        for f in wf {
            foreign.register_udwf(crate::c45w::foreign_udwf(&f)?.1);
        }
    }
    for name in ["generate_series", "range"] {
        let tf = native.state().table_functions().get(name).cloned();
        if let Some(tf) = tf {
            let mut ffi = FFI_TableFunction::new(Arc::clone(tf.function()), None, &tcp, None);
            ffi.library_marker_id = harness_marker;
            let imp: Arc<dyn TableFunctionImpl> = ffi.into();
            if !(imp.as_ref() as &dyn std::any::Any).is::<ForeignTableFunction>() {
                return Err(format!("VIOLATION-SETUP marker override did not force the foreign table function ({FOREIGN_MARKER_NOTE})"));
            }
            foreign.register_udtf(name, imp);
        }
    }
    Ok(c)
}

fn tf_sql(tf: &TableFnCall) -> String {
    let name = if tf.generate_series { "generate_series" } else { "range" };
    let a = &tf.args;
    match tf.flavour {
        1 => {
            let d = |x: i8| format!("DATE '2024-02-{:02}'", (x as i32).rem_euclid(28) + 1);
            let step = a.get(2).copied().unwrap_or(1);
            format!("SELECT * FROM {name}({}, {}, INTERVAL '{}' DAY)", d(a[0]), d(a.get(1).copied().unwrap_or(9)), step)
        }
        2 => {
            let t = |x: i8| format!("TIMESTAMP '2024-02-29T{:02}:30:00'", (x as i32).rem_euclid(24));
            let step = a.get(2).copied().unwrap_or(1);
            format!("SELECT * FROM {name}({}, {}, INTERVAL '{}' MINUTE)", t(a[0]), t(a.get(1).copied().unwrap_or(9)), step as i32 * 25)
        }
        _ => format!("SELECT * FROM {name}({})", a.iter().map(|x| x.to_string()).collect::<Vec<_>>().join(", ")),
    }
}

async fn sql_rows(ctx: &SessionContext, sql: &str) -> Result<(SchemaRef, Vec<Vec<Value>>), String> {
    let df = ctx.sql(sql).await.map_err(|e| e.to_string())?;
    let schema: SchemaRef = Arc::new(df.schema().as_arrow().clone());
    let batches = df.collect().await.map_err(|e| e.to_string())?;
    Ok((schema, rows_of(&batches)))
}

impl Property for C45c {
    type Case = Case;
    fn id(&self) -> &'static str {
        "C45"
    }
    fn sub(&self) -> &'static str {
        "c45c"
    }
    fn strategy(&self, tier: Tier) -> BoxedStrategy<Case> {
        case_strategy(tier)
    }
    fn budget(&self, tier: Tier) -> Budget {
        Budget::new(tier.pick(160, 12_000), tier.pick(8, 16)).min_nontrivial(tier.pick(50, 4_000)).discard_cap(0.6).case_timeout(180)
    }
    fn rule(&self) -> String {
        "refsql-generated tables t0..t2 (0-8 rows, thorough 0-24) and query (depth 2, thorough 3; joins, subqueries, set ops, grouping, windows, CTEs, limits without ties), 1-4 target partitions, 1-3 MemTable partitions, optional small batches, \
         foreign functions on/off, filter pushdown on/off, direct scan probe (projection / 0-3 filters / limit), table function call (ints, dates, timestamps); native context vs foreign context (ForeignTableProvider over a recording provider, \
         Foreign*UDF, ForeignTableFunction) and native plan vs ForeignExecutionPlan + FFI_RecordBatchStream + forced FFI_PlanProperties for every plan node; non-trivial = the query returned rows natively and was compared through the foreign \
         context and the foreign plan, or the direct scan used a projection / filter / limit; distinct by case JSON"
            .into()
    }
    fn assumptions(&self) -> Vec<String> {
        vec![
            "native engine trusted as the reference (C01 checks it against refsql); only queries deterministic on their data are compared; floats compared with relative tolerance 1e-9".to_string(),
            format!("functions implemented through simplify() stay native in the foreign context (ForeignScalarUDF carries no simplify): {}", SIMPLIFY_ONLY.join(", ")),
            "FFI_PlanProperties carries schema, one output ordering, partitioning, emission type and boundedness; equivalence classes and constants are not compared".to_string(),
            "children of a ForeignExecutionPlan and plans returned by ForeignTableProvider::scan carry the library's own marker and are unwrapped locally; the wrapped root and the streams are foreign".to_string(),
            "filter texts received by the provider may legitimately differ in form after the protobuf round trip; the scan result (filters applied exactly by the recording provider) is what is compared".to_string(),
            format!("foreign path forced by overwriting the public library_marker_id fields ({FOREIGN_MARKER_NOTE})"),
        ]
    }
    fn run(&self, case: &Case) -> CaseResult {
        run_cached(case)
    }
    fn known_signature(&self, case: &Case) -> Option<String> {
        match &run_cached(case).outcome {
            Outcome::Violation(m) => m.strip_prefix("[sig=").and_then(|rest| rest.split(']').next()).map(|s| s.to_string()),
            _ => None,
        }
    }
}

thread_local! {
    static LAST: std::cell::RefCell<Option<(u64, CaseResult)>> = const { std::cell::RefCell::new(None) };
}

fn run_cached(case: &Case) -> CaseResult {
    let fp = serde_json::to_vec(case).map(|b| fnv1a(&b)).unwrap_or(0);
    if let Some(r) = LAST.with(|l| l.borrow().as_ref().filter(|(f, _)| *f == fp).map(|(_, r)| r.clone())) {
        return r;
    }
    let r = run_case(case);
    LAST.with(|l| *l.borrow_mut() = Some((fp, r.clone())));
    r
}

fn run_case(case: &Case) -> CaseResult {
    if case.tables.is_empty() {
        return CaseResult::discard("no tables");
    }
    let v = Variant { target_partitions: case.target_partitions.max(1) as usize, mem_partitions: case.mem_partitions.max(1) as usize, batch_rows: case.batch_rows.map(|b| b.max(1) as usize), timeout_ms: 60_000, ..Variant::default() };
    let rt = match vf_df::build_runtime(&v) {
        Ok(r) => r,
        Err(e) => return CaseResult::inconclusive(format!("runtime: {e}")),
    };
    let r = rt.block_on(async { tokio::time::timeout(std::time::Duration::from_millis(v.timeout_ms), run_async(case, &v)).await });
    rt.shutdown_timeout(std::time::Duration::from_millis(200));
    match r {
        Ok(r) => r,
        Err(_) => CaseResult::inconclusive("timeout"),
    }
}

async fn run_async(case: &Case, v: &Variant) -> CaseResult {
    let mut labels: Vec<String> = vec![];
    macro_rules! violation {
        ($($arg:tt)*) => {
            return CaseResult::violation(format!($($arg)*)).labels(labels.clone())
        };
    }
    let ctxs = match build(case, v, false) {
        Ok(c) => c,
        Err(e) if e.starts_with("VIOLATION-SETUP") => violation!("{e}"),
        Err(e) => return CaseResult::discard(format!("setup: {}", truncate(&e, 50))),
    };
    let mut nontrivial = false;
    labels.push(format!("pushdown={}", case.pushdown));
    labels.push(format!("foreign_fns={}", case.foreign_fns));

    // ---- S direct scan
    {
        let ti = pick_index(case.scan.table, case.tables.len());
        let (tn, tf) = (&ctxs.native_tables[ti], &ctxs.foreign_tables[ti]);
        if schema_desc(&tn.schema()) != schema_desc(&tf.schema()) {
            violation!("provider schema: native {} foreign {}", schema_desc(&tn.schema()), schema_desc(&tf.schema()));
        }
        if tn.table_type() != tf.table_type() {
            violation!("table_type: native {:?} foreign {:?}", tn.table_type(), tf.table_type());
        }
        if format!("{:?}", tn.statistics()) != format!("{:?}", tf.statistics()) {
            violation!("statistics: native {:?} foreign {:?}", tn.statistics(), tf.statistics());
        }
        let filters: Vec<Expr> = case.scan.filters.iter().map(build_filter).collect();
        let frefs: Vec<&Expr> = filters.iter().collect();
        let ncols = tn.schema().fields().len();
        let projection: Option<Vec<usize>> = case.scan.projection.as_ref().map(|p| p.iter().map(|i| (*i as usize).min(ncols - 1)).collect());
        let limit = case.scan.limit.map(|l| l as usize);
        match (tn.supports_filters_pushdown(&frefs), tf.supports_filters_pushdown(&frefs)) {
            (Ok(a), Ok(b)) => {
                // the native provider mirrors the capability the FFI wrapper was created with
                if b != a {
                    violation!("supports_filters_pushdown({:?}) with pushdown={}: native {a:?} foreign {b:?}", filters.iter().map(|f| f.to_string()).collect::<Vec<_>>(), case.pushdown);
                }
            }
            (a, b) => violation!("supports_filters_pushdown: native ok={} foreign ok={} ({:?})", a.is_ok(), b.is_ok(), b.err().map(|e| e.to_string())),
        }
        let sn = ctxs.native.state();
        let sf = ctxs.foreign.state();
        let pn = tn.scan(&sn, projection.as_deref(), &filters, limit).await;
        let pf = tf.scan(&sf, projection.as_deref(), &filters, limit).await;
        match (pn, pf) {
            (Ok(pn), Ok(pf)) => {
                let sent = ScanCall { projection: projection.clone(), filters: filters.iter().map(|f| f.to_string()).collect(), limit };
                let got = ctxs.foreign_calls[ti].lock().ok().and_then(|c| c.last().cloned());
                match got {
                    None => violation!("foreign scan did not reach the provider"),
                    Some(g) => {
                        if g.projection != sent.projection || g.limit != sent.limit || g.filters.len() != sent.filters.len() {
                            violation!("scan arguments changed across the FFI: sent {sent:?} received {g:?}");
                        }
                        if g.filters != sent.filters {
                            labels.push("scan:filter-text-differs".into());
                        }
                    }
                }
                if schema_desc(&pn.schema()) != schema_desc(&pf.schema()) {
                    violation!("scan plan schema: native {} foreign {}", schema_desc(&pn.schema()), schema_desc(&pf.schema()));
                }
                let rn = execute_all(&pn, ctxs.native.task_ctx()).await;
                let rf = execute_all(&pf, ctxs.foreign.task_ctx()).await;
                match (rn, rf) {
                    (Ok((_, a)), Ok((_, b))) => {
                        if let Some(d) = same_rows(&rows_of(&a), &rows_of(&b)) {
                            violation!("scan(projection={projection:?}, filters={:?}, limit={limit:?}) rows differ: {d}", sent.filters);
                        }
                        let interesting = projection.is_some() as u8 + (!filters.is_empty()) as u8 + limit.is_some() as u8;
                        if interesting > 0 {
                            nontrivial = true;
                        }
                        labels.push(format!("scan:args={interesting}"));
                    }
                    (Err(_), Err(_)) => labels.push("scan:exec-both-fail".into()),
                    (a, b) => violation!("scan execution: native ok={} foreign ok={} ({:?})", a.is_ok(), b.is_ok(), b.err().map(|e| e.to_string())),
                }
            }
            (Err(_), Err(_)) => labels.push("scan:both-fail".into()),
            (a, b) => violation!("scan(filters={:?}): native {:?} foreign {:?}", filters.iter().map(|f| f.to_string()).collect::<Vec<_>>(), a.map(|_| "Ok").map_err(|e| truncate(&e.to_string(), 300)), b.map(|_| "Ok").map_err(|e| truncate(&e.to_string(), 300))),
        }
    }

    // ---- T table function
    {
        let sql = tf_sql(&case.tf);
        match (sql_rows(&ctxs.native, &sql).await, sql_rows(&ctxs.foreign, &sql).await) {
            (Ok((sa, a)), Ok((sb, b))) => {
                if schema_desc(&sa) != schema_desc(&sb) {
                    violation!("{sql}: schema native {} foreign {}", schema_desc(&sa), schema_desc(&sb));
                }
                if let Some(d) = same_rows(&a, &b) {
                    violation!("{sql}: rows differ: {d}");
                }
                labels.push(format!("tf:{}:ok", if case.tf.generate_series { "generate_series" } else { "range" }));
            }
            (Err(_), Err(_)) => labels.push("tf:both-fail".into()),
            (a, b) => violation!("{sql}: native {:?} foreign {:?}", a.map(|r| r.1.len()).map_err(|e| truncate(&e, 300)), b.map(|r| r.1.len()).map_err(|e| truncate(&e, 300))),
        }
    }

    // ---- Q / P the generated query
    let db = refsql::Db { tables: case.tables.clone() };
    if !refsql::deterministic_on(&case.query, &db) {
        labels.push("query:nondeterministic-skipped".into());
        return CaseResult::pass().labels(labels).nontrivial(nontrivial);
    }
    let sql = refsql::to_sql(&case.query);
    for f in refsql::features(&case.query) {
        labels.push(format!("q:{f}"));
    }
    // native: logical → physical → rows
    let native_plan = match std::panic::AssertUnwindSafe(async {
        let state = ctxs.native.state();
        let logical = state.create_logical_plan(&sql).await?;
        state.create_physical_plan(&logical).await
    })
    .catch_unwind()
    .await
    {
        Ok(r) => r,
        Err(_) => return CaseResult::discard("native planner panicked (not an FFI matter)").labels(labels),
    };
    let foreign_plan = async {
        let state = ctxs.foreign.state();
        let logical = state.create_logical_plan(&sql).await?;
        state.create_physical_plan(&logical).await
    }
    .await;
    let (np, fp) = match (native_plan, foreign_plan) {
        (Ok(a), Ok(b)) => (a, b),
        (Err(e), Err(_)) => {
            labels.push("query:plan-both-fail".into());
            let clean = matches!(e.find_root(), DataFusionError::NotImplemented(_) | DataFusionError::Plan(_));
            return if clean { CaseResult::discard(format!("engine rejects: {}", truncate(&e.to_string(), 40))).labels(labels) } else { CaseResult::pass().labels(labels).nontrivial(nontrivial) };
        }
        (Ok(np), Err(fe)) if case.pushdown && fe.to_string().contains("Proto serialization error") => {
            // known finding? the same case with filter pushdown disabled on the FFI provider must plan and agree
            let mut c2 = case.clone();
            c2.pushdown = false;
            if let Ok(diag) = build(&c2, v, false) {
                let again = async {
                    let state = diag.foreign.state();
                    let logical = state.create_logical_plan(&sql).await?;
                    let plan = state.create_physical_plan(&logical).await?;
                    execute_all(&plan, diag.foreign.task_ctx()).await
                }
                .await;
                let native_rows = std::panic::AssertUnwindSafe(execute_all(&np, ctxs.native.task_ctx())).catch_unwind().await;
                if let (Ok((_, c)), Ok(Ok((_, a)))) = (again, native_rows) {
                    if same_rows(&rows_of(&a), &rows_of(&c)).is_none() {
                        violation!(
                            "[sig=ffi-provider-unserializable-filter] planning `{sql}` fails with a ForeignTableProvider that supports filter pushdown ({}) and works (same rows as native) without pushdown: ForeignTableProvider::supports_filters_pushdown turns a filter it cannot serialise into a planning error instead of answering Unsupported for it",
                            truncate(&fe.to_string(), 300)
                        );
                    }
                }
            }
            violation!("planning `{sql}`: native Ok, foreign Err {}", truncate(&fe.to_string(), 400))
        }
        (a, b) => violation!("planning `{sql}`: native {:?} foreign {:?}", a.map(|_| "Ok").map_err(|e| truncate(&e.to_string(), 400)), b.map(|_| "Ok").map_err(|e| truncate(&e.to_string(), 400))),
    };
    let native_rows = match std::panic::AssertUnwindSafe(execute_all(&np, ctxs.native.task_ctx())).catch_unwind().await {
        Ok(r) => r,
        Err(_) => return CaseResult::discard("native execution panicked (not an FFI matter)").labels(labels),
    };
    let foreign_rows = execute_all(&fp, ctxs.foreign.task_ctx()).await;
    let native_rows = match (native_rows, foreign_rows) {
        (Ok((_, a)), Ok((_, b))) => {
            let (ra, rb) = (rows_of(&a), rows_of(&b));
            if let Some(d) = same_rows(&ra, &rb) {
                if case.foreign_fns {
                    // known finding? re-run with the aggregates that have a non-NULL value over no rows (count) kept native
                    if let Ok(diag) = build(case, v, true) {
                        let again = async {
                            let state = diag.foreign.state();
                            let logical = state.create_logical_plan(&sql).await?;
                            let plan = state.create_physical_plan(&logical).await?;
                            execute_all(&plan, diag.foreign.task_ctx()).await
                        }
                        .await;
                        if let Ok((_, c)) = again {
                            if same_rows(&ra, &rows_of(&c)).is_none() {
                                violation!("[sig=udaf-default-value-not-carried] `{sql}`: with every function foreign the rows differ ({d}); with count (the aggregates whose default_value is not NULL) kept native they agree — ForeignAggregateUDF does not carry default_value, so the decorrelated scalar subquery yields NULL instead of count's 0");
                            }
                        }
                    }
                }
                violation!("`{sql}` (foreign context: tables{}): rows differ: {d}", if case.foreign_fns { " + functions" } else { "" });
            }
            labels.push("query:context-compared".into());
            ra
        }
        (Err(_), Err(_)) => {
            labels.push("query:exec-both-fail".into());
            return CaseResult::pass().labels(labels).nontrivial(nontrivial);
        }
        (Ok((_, a)), Err(fe)) if case.foreign_fns => {
            // known finding? (an empty window frame takes the aggregate's default_value, NULL through the FFI, and lands in
            // count's non-nullable column) — with count kept native the foreign context must agree
            let ra = rows_of(&a);
            if let Ok(diag) = build(case, v, true) {
                let again = async {
                    let state = diag.foreign.state();
                    let logical = state.create_logical_plan(&sql).await?;
                    let plan = state.create_physical_plan(&logical).await?;
                    execute_all(&plan, diag.foreign.task_ctx()).await
                }
                .await;
                if let Ok((_, c)) = again {
                    if same_rows(&ra, &rows_of(&c)).is_none() {
                        violation!("[sig=udaf-default-value-not-carried] `{sql}`: with every function foreign the execution fails ({}); with count (the aggregates whose default_value is not NULL) kept native the rows agree — ForeignAggregateUDF does not carry default_value (an empty window frame / a decorrelated subquery gets NULL instead of count's 0)", truncate(&fe.to_string(), 300));
                    }
                }
            }
            violation!("executing `{sql}`: native Ok({}), foreign context Err {}", ra.len(), truncate(&fe.to_string(), 400))
        }
        (a, b) => violation!("executing `{sql}`: native {:?} foreign context {:?}", a.map(|r| r.1.len()).map_err(|e| truncate(&e.to_string(), 400)), b.map(|r| r.1.len()).map_err(|e| truncate(&e.to_string(), 400))),
    };
    let scans_foreign = ctxs.foreign_calls.iter().any(|c| c.lock().map(|c| !c.is_empty()).unwrap_or(false));

    // ---- P properties of every node, through forced FFI_PlanProperties
    let mut nodes = vec![];
    walk(&np, &mut nodes);
    for node in &nodes {
        let native_desc = props_desc(node.properties());
        match forced_properties(node) {
            Ok(p) => {
                let d = props_desc(&p);
                if d != native_desc {
                    violation!("plan properties of {} differ across the FFI:\n native  {native_desc}\n foreign {d}\n query: {sql}", node.name());
                }
                labels.push(format!("props:{}", match node.output_partitioning() {
                    Partitioning::Hash(_, _) => "hash",
                    Partitioning::RoundRobinBatch(_) => "round-robin",
                    Partitioning::UnknownPartitioning(_) => "unknown",
                    _ => "other",
                }));
                if node.output_ordering().is_some() {
                    labels.push("props:ordered".into());
                }
            }
            Err(e) => violation!("plan properties of {} not convertible through the FFI: {e}; native {native_desc}; query: {sql}", node.name()),
        }
        labels.push(format!("node:{}", node.name()));
    }

    // ---- P the plan root as ForeignExecutionPlan, streams as FFI_RecordBatchStream
    // (a second, fresh instance of the native plan: several operators are single-use)
    let np2 = async {
        let state = ctxs.native.state();
        let logical = state.create_logical_plan(&sql).await?;
        state.create_physical_plan(&logical).await
    }
    .await;
    let np2 = match np2 {
        Ok(p) => p,
        Err(e) => return CaseResult::inconclusive(format!("re-planning failed: {}", truncate(&e.to_string(), 60))).labels(labels),
    };
    let mut ffi = FFI_ExecutionPlan::new(Arc::clone(&np2), None);
    ffi.library_marker_id = harness_marker;
    let fplan = match ForeignExecutionPlan::try_from(ffi) {
        Ok(p) => Arc::new(p) as Arc<dyn ExecutionPlan>,
        Err(e) => violation!("ForeignExecutionPlan::try_from failed for `{sql}`: {e}"),
    };
    if fplan.name() != np.name() {
        violation!("plan name: native {} foreign {}", np.name(), fplan.name());
    }
    if fplan.children().len() != np.children().len() {
        violation!("children: native {} foreign {}", np.children().len(), fplan.children().len());
    }
    if schema_desc(&fplan.schema()) != schema_desc(&np.schema()) {
        violation!("plan schema: native {} foreign {}", schema_desc(&np.schema()), schema_desc(&fplan.schema()));
    }
    if fplan.output_partitioning().partition_count() != np.output_partitioning().partition_count() {
        violation!("partition count: native {} foreign {}", np.output_partitioning().partition_count(), fplan.output_partitioning().partition_count());
    }
    match execute_all(&fplan, ctxs.native.task_ctx()).await {
        Ok((schemas, batches)) => {
            for s in &schemas {
                if schema_desc(s) != schema_desc(&np.schema()) {
                    violation!("stream schema through FFI_RecordBatchStream: {} plan schema: {}", schema_desc(s), schema_desc(&np.schema()));
                }
            }
            for b in &batches {
                if schema_desc(&b.schema()) != schema_desc(&np.schema()) {
                    violation!("batch schema through FFI_RecordBatchStream: {} plan schema: {}", schema_desc(&b.schema()), schema_desc(&np.schema()));
                }
                // validate what crossed the C data interface
                for c in b.columns() {
                    if let Err(e) = c.to_data().validate_full() {
                        violation!("invalid array through FFI_RecordBatchStream: {e}; column {:?}", render_all(c.as_ref()));
                    }
                }
            }
            let rows = rows_of(&batches);
            if let Some(d) = same_rows(&native_rows, &rows) {
                violation!("`{sql}` through ForeignExecutionPlan: rows differ: {d}");
            }
            labels.push("query:foreign-plan-compared".into());
            if !native_rows.is_empty() && scans_foreign {
                nontrivial = true;
            }
        }
        Err(e) => violation!("`{sql}`: native execution Ok, ForeignExecutionPlan failed: {}", truncate(&e.to_string(), 400)),
    }
    let _ = ScalarValue::Null;
    CaseResult::pass().labels(labels).nontrivial(nontrivial)
}
