#![allow(dead_code)]
//! Shared helpers of vf-fn: plain-data types (`Ty`) and values (`V`), per-type value pools, conversion to
//! Arrow arrays in several physical representations, and a canonical per-row rendering used to compare
//! results across encodings.
//!
//! Cases hold only `Ty` / `V`; Arrow objects are derived inside `run`.
use arrow::array::*;
use arrow::datatypes::*;
use datafusion::common::ScalarValue;
use proptest::prelude::*;
use serde::{Deserialize, Serialize};
use std::sync::Arc;

/// f64 stored as its shortest round-trip text (so NaN / inf / -0.0 survive JSON)
#[derive(Clone, Copy, Debug)]
pub struct Fl(pub f64);
/// bitwise equality: -0.0 != 0.0, NaN == NaN (same payload) — "the same value" for constant detection
impl PartialEq for Fl {
    fn eq(&self, o: &Fl) -> bool {
        self.0.to_bits() == o.0.to_bits()
    }
}
impl Serialize for Fl {
    fn serialize<S: serde::Serializer>(&self, s: S) -> Result<S::Ok, S::Error> {
        s.serialize_str(&format!("{:?}", self.0))
    }
}
impl<'de> Deserialize<'de> for Fl {
    fn deserialize<D: serde::Deserializer<'de>>(d: D) -> Result<Self, D::Error> {
        let s = String::deserialize(d)?;
        s.parse::<f64>().map(Fl).map_err(serde::de::Error::custom)
    }
}

#[derive(Clone, Debug, PartialEq, Eq, Hash, PartialOrd, Ord, Serialize, Deserialize)]
pub enum Ty {
    Null,
    Bool,
    I8,
    I16,
    I32,
    I64,
    U8,
    U16,
    U32,
    U64,
    F16,
    F32,
    F64,
    /// Decimal128(precision, scale)
    Dec(u8, i8),
    /// Decimal256(precision, scale) (values limited to the i64 range)
    Dec256(u8, i8),
    Utf8,
    LargeUtf8,
    Utf8View,
    Binary,
    LargeBinary,
    BinaryView,
    FixedBin(i32),
    Date32,
    Date64,
    /// Time32(Second)
    Time32S,
    /// Time64(Nanosecond)
    Time64Ns,
    /// Timestamp(unit: 0=s 1=ms 2=us 3=ns, tz)
    Ts(u8, Option<String>),
    /// Duration(unit)
    Dur(u8),
    IntervalYM,
    IntervalDT,
    IntervalMDN,
    List(Box<Ty>),
    LargeList(Box<Ty>),
    FixedList(Box<Ty>, i32),
    Struct(Vec<(String, Ty)>),
    /// Map(key, value)
    Map(Box<Ty>, Box<Ty>),
    /// Dictionary(Int32 | Int8 keys, value type)
    Dict(bool, Box<Ty>),
}

#[derive(Clone, Debug, PartialEq, Serialize, Deserialize)]
pub enum V {
    Null,
    B(bool),
    /// any integer-backed value: ints, decimals (unscaled), dates, times, timestamps, durations
    I(i64),
    U(u64),
    F(Fl),
    S(String),
    Bin(Vec<u8>),
    /// interval: months, days, nanos
    Iv(i32, i32, i64),
    /// list / fixed-size list elements
    L(Vec<V>),
    /// struct fields in declaration order
    St(Vec<V>),
    /// map entries
    M(Vec<(V, V)>),
}

impl V {
    pub fn is_null(&self) -> bool {
        matches!(self, V::Null)
    }
    pub fn f(x: f64) -> V {
        V::F(Fl(x))
    }
}

fn unit(u: u8) -> TimeUnit {
    match u {
        0 => TimeUnit::Second,
        1 => TimeUnit::Millisecond,
        2 => TimeUnit::Microsecond,
        _ => TimeUnit::Nanosecond,
    }
}

impl Ty {
    pub fn dt(&self) -> DataType {
        match self {
            Ty::Null => DataType::Null,
            Ty::Bool => DataType::Boolean,
            Ty::I8 => DataType::Int8,
            Ty::I16 => DataType::Int16,
            Ty::I32 => DataType::Int32,
            Ty::I64 => DataType::Int64,
            Ty::U8 => DataType::UInt8,
            Ty::U16 => DataType::UInt16,
            Ty::U32 => DataType::UInt32,
            Ty::U64 => DataType::UInt64,
            Ty::F16 => DataType::Float16,
            Ty::F32 => DataType::Float32,
            Ty::F64 => DataType::Float64,
            Ty::Dec(p, s) => DataType::Decimal128(*p, *s),
            Ty::Dec256(p, s) => DataType::Decimal256(*p, *s),
            Ty::Utf8 => DataType::Utf8,
            Ty::LargeUtf8 => DataType::LargeUtf8,
            Ty::Utf8View => DataType::Utf8View,
            Ty::Binary => DataType::Binary,
            Ty::LargeBinary => DataType::LargeBinary,
            Ty::BinaryView => DataType::BinaryView,
            Ty::FixedBin(n) => DataType::FixedSizeBinary(*n),
            Ty::Date32 => DataType::Date32,
            Ty::Date64 => DataType::Date64,
            Ty::Time32S => DataType::Time32(TimeUnit::Second),
            Ty::Time64Ns => DataType::Time64(TimeUnit::Nanosecond),
            Ty::Ts(u, tz) => DataType::Timestamp(unit(*u), tz.as_ref().map(|s| Arc::from(s.as_str()))),
            Ty::Dur(u) => DataType::Duration(unit(*u)),
            Ty::IntervalYM => DataType::Interval(IntervalUnit::YearMonth),
            Ty::IntervalDT => DataType::Interval(IntervalUnit::DayTime),
            Ty::IntervalMDN => DataType::Interval(IntervalUnit::MonthDayNano),
            Ty::List(t) => DataType::List(Arc::new(Field::new_list_field(t.dt(), true))),
            Ty::LargeList(t) => DataType::LargeList(Arc::new(Field::new_list_field(t.dt(), true))),
            Ty::FixedList(t, n) => DataType::FixedSizeList(Arc::new(Field::new_list_field(t.dt(), true)), *n),
            Ty::Struct(fs) => DataType::Struct(fs.iter().map(|(n, t)| Field::new(n, t.dt(), true)).collect()),
            Ty::Map(k, v) => DataType::Map(
                Arc::new(Field::new(
                    "entries",
                    DataType::Struct(Fields::from(vec![Field::new("key", k.dt(), false), Field::new("value", v.dt(), true)])),
                    false,
                )),
                false,
            ),
            Ty::Dict(small, t) => DataType::Dictionary(Box::new(if *small { DataType::Int8 } else { DataType::Int32 }), Box::new(t.dt())),
        }
    }

    /// inverse of `dt` for the types this module can generate values for
    pub fn from_dt(dt: &DataType) -> Option<Ty> {
        Some(match dt {
            DataType::Null => Ty::Null,
            DataType::Boolean => Ty::Bool,
            DataType::Int8 => Ty::I8,
            DataType::Int16 => Ty::I16,
            DataType::Int32 => Ty::I32,
            DataType::Int64 => Ty::I64,
            DataType::UInt8 => Ty::U8,
            DataType::UInt16 => Ty::U16,
            DataType::UInt32 => Ty::U32,
            DataType::UInt64 => Ty::U64,
            DataType::Float16 => Ty::F16,
            DataType::Float32 => Ty::F32,
            DataType::Float64 => Ty::F64,
            DataType::Decimal128(p, s) => Ty::Dec(*p, *s),
            DataType::Decimal256(p, s) => Ty::Dec256(*p, *s),
            DataType::Utf8 => Ty::Utf8,
            DataType::LargeUtf8 => Ty::LargeUtf8,
            DataType::Utf8View => Ty::Utf8View,
            DataType::Binary => Ty::Binary,
            DataType::LargeBinary => Ty::LargeBinary,
            DataType::BinaryView => Ty::BinaryView,
            DataType::FixedSizeBinary(n) => Ty::FixedBin(*n),
            DataType::Date32 => Ty::Date32,
            DataType::Date64 => Ty::Date64,
            DataType::Time32(TimeUnit::Second) => Ty::Time32S,
            DataType::Time64(TimeUnit::Nanosecond) => Ty::Time64Ns,
            DataType::Timestamp(u, tz) => Ty::Ts(
                match u {
                    TimeUnit::Second => 0,
                    TimeUnit::Millisecond => 1,
                    TimeUnit::Microsecond => 2,
                    TimeUnit::Nanosecond => 3,
                },
                tz.as_ref().map(|s| s.to_string()),
            ),
            DataType::Duration(u) => Ty::Dur(match u {
                TimeUnit::Second => 0,
                TimeUnit::Millisecond => 1,
                TimeUnit::Microsecond => 2,
                TimeUnit::Nanosecond => 3,
            }),
            DataType::Interval(IntervalUnit::YearMonth) => Ty::IntervalYM,
            DataType::Interval(IntervalUnit::DayTime) => Ty::IntervalDT,
            DataType::Interval(IntervalUnit::MonthDayNano) => Ty::IntervalMDN,
            DataType::List(f) => Ty::List(Box::new(Ty::from_dt(f.data_type())?)),
            DataType::LargeList(f) => Ty::LargeList(Box::new(Ty::from_dt(f.data_type())?)),
            DataType::FixedSizeList(f, n) => Ty::FixedList(Box::new(Ty::from_dt(f.data_type())?), *n),
            DataType::Struct(fs) => {
                let mut v = vec![];
                for f in fs.iter() {
                    v.push((f.name().clone(), Ty::from_dt(f.data_type())?));
                }
                Ty::Struct(v)
            }
            DataType::Map(f, _) => match f.data_type() {
                DataType::Struct(fs) if fs.len() == 2 => Ty::Map(Box::new(Ty::from_dt(fs[0].data_type())?), Box::new(Ty::from_dt(fs[1].data_type())?)),
                _ => return None,
            },
            DataType::Dictionary(k, v) => Ty::Dict(matches!(**k, DataType::Int8), Box::new(Ty::from_dt(v)?)),
            _ => return None,
        })
    }

    /// `dt()` round-trips exactly (field names / nullability of nested types as this module builds them)
    pub fn from_dt_exact(dt: &DataType) -> Option<Ty> {
        let t = Ty::from_dt(dt)?;
        if &t.dt() == dt { Some(t) } else { None }
    }

    pub fn is_string(&self) -> bool {
        matches!(self, Ty::Utf8 | Ty::LargeUtf8 | Ty::Utf8View)
    }
    pub fn is_binary(&self) -> bool {
        matches!(self, Ty::Binary | Ty::LargeBinary | Ty::BinaryView)
    }
    pub fn is_float(&self) -> bool {
        matches!(self, Ty::F16 | Ty::F32 | Ty::F64)
    }
    pub fn is_int(&self) -> bool {
        matches!(self, Ty::I8 | Ty::I16 | Ty::I32 | Ty::I64 | Ty::U8 | Ty::U16 | Ty::U32 | Ty::U64)
    }
    pub fn short(&self) -> String {
        match self {
            Ty::Dec(p, s) => format!("Dec({p},{s})"),
            Ty::Dec256(p, s) => format!("Dec256({p},{s})"),
            Ty::Ts(u, tz) => format!("Ts({}{})", ["s", "ms", "us", "ns"][(*u).min(3) as usize], if tz.is_some() { ",tz" } else { "" }),
            Ty::List(t) => format!("List<{}>", t.short()),
            Ty::LargeList(t) => format!("LargeList<{}>", t.short()),
            Ty::FixedList(t, n) => format!("FixedList<{},{n}>", t.short()),
            Ty::Struct(fs) => format!("Struct<{}>", fs.iter().map(|(_, t)| t.short()).collect::<Vec<_>>().join(",")),
            Ty::Map(k, v) => format!("Map<{},{}>", k.short(), v.short()),
            Ty::Dict(s, t) => format!("Dict<{},{}>", if *s { "i8" } else { "i32" }, t.short()),
            o => format!("{o:?}"),
        }
    }
}

fn int_range(t: &Ty) -> (i128, i128) {
    match t {
        Ty::I8 => (i8::MIN as i128, i8::MAX as i128),
        Ty::I16 => (i16::MIN as i128, i16::MAX as i128),
        Ty::I32 | Ty::Date32 | Ty::Time32S => (i32::MIN as i128, i32::MAX as i128),
        Ty::U8 => (0, u8::MAX as i128),
        Ty::U16 => (0, u16::MAX as i128),
        Ty::U32 => (0, u32::MAX as i128),
        Ty::U64 => (0, u64::MAX as i128),
        _ => (i64::MIN as i128, i64::MAX as i128),
    }
}

fn as_i128(v: &V) -> Option<i128> {
    match v {
        V::I(i) => Some(*i as i128),
        V::U(u) => Some(*u as i128),
        V::B(b) => Some(*b as i128),
        V::F(Fl(f)) if f.is_finite() => Some(*f as i128),
        _ => None,
    }
}

fn clamp_int(v: &V, t: &Ty) -> Option<i128> {
    let (lo, hi) = int_range(t);
    as_i128(v).map(|x| x.clamp(lo, hi))
}

fn as_f64(v: &V) -> Option<f64> {
    match v {
        V::F(Fl(f)) => Some(*f),
        V::I(i) => Some(*i as f64),
        V::U(u) => Some(*u as f64),
        _ => None,
    }
}

/// Convert a plain value to a `ScalarValue` of type `t`. Values that do not fit the type become NULL
/// (generators produce fitting values; this only keeps hand-edited replay files total).
pub fn to_scalar(v: &V, t: &Ty) -> ScalarValue {
    let null = || ScalarValue::try_from(&t.dt()).unwrap_or(ScalarValue::Null);
    if v.is_null() {
        return null();
    }
    match t {
        Ty::Null => ScalarValue::Null,
        Ty::Bool => match v {
            V::B(b) => ScalarValue::Boolean(Some(*b)),
            _ => null(),
        },
        Ty::I8 => clamp_int(v, t).map(|x| ScalarValue::Int8(Some(x as i8))).unwrap_or_else(null),
        Ty::I16 => clamp_int(v, t).map(|x| ScalarValue::Int16(Some(x as i16))).unwrap_or_else(null),
        Ty::I32 => clamp_int(v, t).map(|x| ScalarValue::Int32(Some(x as i32))).unwrap_or_else(null),
        Ty::I64 => clamp_int(v, t).map(|x| ScalarValue::Int64(Some(x as i64))).unwrap_or_else(null),
        Ty::U8 => clamp_int(v, t).map(|x| ScalarValue::UInt8(Some(x as u8))).unwrap_or_else(null),
        Ty::U16 => clamp_int(v, t).map(|x| ScalarValue::UInt16(Some(x as u16))).unwrap_or_else(null),
        Ty::U32 => clamp_int(v, t).map(|x| ScalarValue::UInt32(Some(x as u32))).unwrap_or_else(null),
        Ty::U64 => clamp_int(v, t).map(|x| ScalarValue::UInt64(Some(x as u64))).unwrap_or_else(null),
        Ty::F16 => as_f64(v).map(|x| ScalarValue::Float16(Some(<arrow::datatypes::Float16Type as arrow::datatypes::ArrowPrimitiveType>::Native::from_f64(x)))).unwrap_or_else(null),
        Ty::F32 => as_f64(v).map(|x| ScalarValue::Float32(Some(x as f32))).unwrap_or_else(null),
        Ty::F64 => as_f64(v).map(|x| ScalarValue::Float64(Some(x))).unwrap_or_else(null),
        Ty::Dec(p, s) => clamp_int(v, t)
            .map(|x| {
                let lim = 10i128.pow((*p as u32).min(38)) - 1;
                ScalarValue::Decimal128(Some(x.clamp(-lim, lim)), *p, *s)
            })
            .unwrap_or_else(null),
        Ty::Dec256(p, s) => clamp_int(v, t).map(|x| ScalarValue::Decimal256(Some(i256::from_i128(x)), *p, *s)).unwrap_or_else(null),
        Ty::Utf8 => match v {
            V::S(s) => ScalarValue::Utf8(Some(s.clone())),
            _ => null(),
        },
        Ty::LargeUtf8 => match v {
            V::S(s) => ScalarValue::LargeUtf8(Some(s.clone())),
            _ => null(),
        },
        Ty::Utf8View => match v {
            V::S(s) => ScalarValue::Utf8View(Some(s.clone())),
            _ => null(),
        },
        Ty::Binary => match v {
            V::Bin(b) => ScalarValue::Binary(Some(b.clone())),
            V::S(s) => ScalarValue::Binary(Some(s.as_bytes().to_vec())),
            _ => null(),
        },
        Ty::LargeBinary => match v {
            V::Bin(b) => ScalarValue::LargeBinary(Some(b.clone())),
            V::S(s) => ScalarValue::LargeBinary(Some(s.as_bytes().to_vec())),
            _ => null(),
        },
        Ty::BinaryView => match v {
            V::Bin(b) => ScalarValue::BinaryView(Some(b.clone())),
            V::S(s) => ScalarValue::BinaryView(Some(s.as_bytes().to_vec())),
            _ => null(),
        },
        Ty::FixedBin(n) => match v {
            V::Bin(b) => {
                let mut b = b.clone();
                b.resize(*n as usize, 0);
                ScalarValue::FixedSizeBinary(*n, Some(b))
            }
            _ => null(),
        },
        Ty::Date32 => clamp_int(v, t).map(|x| ScalarValue::Date32(Some(x as i32))).unwrap_or_else(null),
        Ty::Date64 => clamp_int(v, t).map(|x| ScalarValue::Date64(Some(x as i64))).unwrap_or_else(null),
        Ty::Time32S => clamp_int(v, t).map(|x| ScalarValue::Time32Second(Some((x as i32).rem_euclid(86_400)))).unwrap_or_else(null),
        Ty::Time64Ns => clamp_int(v, t).map(|x| ScalarValue::Time64Nanosecond(Some((x as i64).rem_euclid(86_400_000_000_000)))).unwrap_or_else(null),
        Ty::Ts(u, tz) => {
            let tz: Option<Arc<str>> = tz.as_ref().map(|s| Arc::from(s.as_str()));
            clamp_int(v, t)
                .map(|x| {
                    let x = Some(x as i64);
                    match u {
                        0 => ScalarValue::TimestampSecond(x, tz.clone()),
                        1 => ScalarValue::TimestampMillisecond(x, tz.clone()),
                        2 => ScalarValue::TimestampMicrosecond(x, tz.clone()),
                        _ => ScalarValue::TimestampNanosecond(x, tz.clone()),
                    }
                })
                .unwrap_or_else(null)
        }
        Ty::Dur(u) => clamp_int(v, t)
            .map(|x| {
                let x = Some(x as i64);
                match u {
                    0 => ScalarValue::DurationSecond(x),
                    1 => ScalarValue::DurationMillisecond(x),
                    2 => ScalarValue::DurationMicrosecond(x),
                    _ => ScalarValue::DurationNanosecond(x),
                }
            })
            .unwrap_or_else(null),
        Ty::IntervalYM => match v {
            V::Iv(m, _, _) => ScalarValue::IntervalYearMonth(Some(*m)),
            _ => null(),
        },
        Ty::IntervalDT => match v {
            V::Iv(_, d, n) => ScalarValue::IntervalDayTime(Some(IntervalDayTime::new(*d, (*n / 1_000_000).clamp(i32::MIN as i64, i32::MAX as i64) as i32))),
            _ => null(),
        },
        Ty::IntervalMDN => match v {
            V::Iv(m, d, n) => ScalarValue::IntervalMonthDayNano(Some(IntervalMonthDayNano::new(*m, *d, *n))),
            _ => null(),
        },
        Ty::List(e) => match v {
            V::L(items) => {
                let vals: Vec<ScalarValue> = items.iter().map(|x| to_scalar(x, e)).collect();
                ScalarValue::List(ScalarValue::new_list(&vals, &e.dt(), true))
            }
            _ => null(),
        },
        Ty::LargeList(e) => match v {
            V::L(items) => {
                let vals: Vec<ScalarValue> = items.iter().map(|x| to_scalar(x, e)).collect();
                ScalarValue::LargeList(ScalarValue::new_large_list(&vals, &e.dt()))
            }
            _ => null(),
        },
        Ty::FixedList(e, n) => match v {
            V::L(items) => {
                let mut vals: Vec<ScalarValue> = items.iter().take(*n as usize).map(|x| to_scalar(x, e)).collect();
                while vals.len() < *n as usize {
                    vals.push(to_scalar(&V::Null, e));
                }
                let child = match ScalarValue::iter_to_array(vals) {
                    Ok(a) => a,
                    Err(_) => return null(),
                };
                match FixedSizeListArray::try_new(Arc::new(Field::new_list_field(e.dt(), true)), *n, child, None) {
                    Ok(a) => ScalarValue::FixedSizeList(Arc::new(a)),
                    Err(_) => null(),
                }
            }
            _ => null(),
        },
        Ty::Struct(fs) => match v {
            V::St(items) if items.len() == fs.len() => {
                let mut cols: Vec<ArrayRef> = vec![];
                for (x, (_, ft)) in items.iter().zip(fs.iter()) {
                    match to_scalar(x, ft).to_array() {
                        Ok(a) => cols.push(a),
                        Err(_) => return null(),
                    }
                }
                let fields: Fields = fs.iter().map(|(n, t)| Field::new(n, t.dt(), true)).collect();
                match StructArray::try_new(fields, cols, None) {
                    Ok(a) => ScalarValue::Struct(Arc::new(a)),
                    Err(_) => null(),
                }
            }
            _ => null(),
        },
        Ty::Map(kt, vt) => match v {
            V::M(entries) => {
                // keys must be non-null and distinct: generators guarantee it; enforce here for totality
                let mut seen: Vec<&V> = vec![];
                let mut ks = vec![];
                let mut vs = vec![];
                for (k, val) in entries {
                    if k.is_null() || seen.contains(&k) {
                        continue;
                    }
                    seen.push(k);
                    ks.push(to_scalar(k, kt));
                    vs.push(to_scalar(val, vt));
                }
                let (ka, va) = if ks.is_empty() {
                    (new_empty_array(&kt.dt()), new_empty_array(&vt.dt()))
                } else {
                    match (ScalarValue::iter_to_array(ks), ScalarValue::iter_to_array(vs)) {
                        (Ok(a), Ok(b)) => (a, b),
                        _ => return null(),
                    }
                };
                let DataType::Map(entries_field, _) = t.dt() else { return null() };
                let DataType::Struct(sf) = entries_field.data_type().clone() else { return null() };
                let n = ka.len() as i32;
                let st = match StructArray::try_new(sf, vec![ka, va], None) {
                    Ok(s) => s,
                    Err(_) => return null(),
                };
                let offsets = arrow::buffer::OffsetBuffer::new(vec![0i32, n].into());
                match MapArray::try_new(entries_field, offsets, st, None, false) {
                    Ok(m) => ScalarValue::Map(Arc::new(m)),
                    Err(_) => null(),
                }
            }
            _ => null(),
        },
        Ty::Dict(small, inner) => {
            let k = if *small { DataType::Int8 } else { DataType::Int32 };
            ScalarValue::Dictionary(Box::new(k), Box::new(to_scalar(v, inner)))
        }
    }
}

/// plain (canonical) array of type `t`
pub fn to_array(vals: &[V], t: &Ty) -> Result<ArrayRef, String> {
    if vals.is_empty() {
        return Ok(new_empty_array(&t.dt()));
    }
    if let Ty::Dict(small, inner) = t {
        let plain = to_array(vals, inner)?;
        let _ = small;
        return arrow::compute::cast(&plain, &t.dt()).map_err(|e| format!("dictionary cast: {e}"));
    }
    if matches!(t, Ty::Null) {
        return Ok(Arc::new(NullArray::new(vals.len())));
    }
    let scalars: Vec<ScalarValue> = vals.iter().map(|v| to_scalar(v, t)).collect();
    let a = ScalarValue::iter_to_array(scalars).map_err(|e| format!("iter_to_array({}): {e}", t.short()))?;
    if a.data_type() != &t.dt() {
        return arrow::compute::cast(&a, &t.dt()).map_err(|e| format!("cast to declared type: {e}"));
    }
    Ok(a)
}

/// The same logical column sliced out of a larger array (non-zero offset, other data before and after).
pub fn to_sliced_array(vals: &[V], t: &Ty, pad_front: &[V], pad_back: &[V]) -> Result<ArrayRef, String> {
    let mut all: Vec<V> = Vec::with_capacity(vals.len() + pad_front.len() + pad_back.len());
    all.extend_from_slice(pad_front);
    all.extend_from_slice(vals);
    all.extend_from_slice(pad_back);
    let a = to_array(&all, t)?;
    Ok(a.slice(pad_front.len(), vals.len()))
}

// ---------------------------------------------------------------------------------------------
// canonical rendering

fn hex(b: &[u8]) -> String {
    let mut s = String::with_capacity(b.len() * 2);
    for x in b {
        s.push_str(&format!("{x:02x}"));
    }
    s
}

fn fl(x: f64) -> String {
    if x.is_nan() { "NaN".into() } else { format!("{x:?}") }
}

/// Render row `i` of `a` in a form that depends only on the logical value: string / binary encodings,
/// dictionary encoding, offsets and list flavours do not show; floats are rendered bit-exactly modulo
/// the NaN payload; NULL is `NULL`.
pub fn render(a: &dyn Array, i: usize) -> String {
    let mut s = String::new();
    render_into(a, i, &mut s);
    s
}

macro_rules! prim {
    ($a:expr, $i:expr, $t:ty, $out:expr, $tag:expr) => {{
        let p = $a.as_primitive::<$t>();
        $out.push_str(&format!("{}{:?}", $tag, p.value($i)));
    }};
}

pub fn render_into(a: &dyn Array, i: usize, out: &mut String) {
    if a.data_type() != &DataType::Null && !matches!(a.data_type(), DataType::Dictionary(_, _) | DataType::RunEndEncoded(_, _) | DataType::Union(_, _)) && a.is_null(i) {
        out.push_str("NULL");
        return;
    }
    match a.data_type() {
        DataType::Null => out.push_str("NULL"),
        DataType::Boolean => out.push_str(if a.as_boolean().value(i) { "true" } else { "false" }),
        DataType::Int8 => prim!(a, i, Int8Type, out, ""),
        DataType::Int16 => prim!(a, i, Int16Type, out, ""),
        DataType::Int32 => prim!(a, i, Int32Type, out, ""),
        DataType::Int64 => prim!(a, i, Int64Type, out, ""),
        DataType::UInt8 => prim!(a, i, UInt8Type, out, ""),
        DataType::UInt16 => prim!(a, i, UInt16Type, out, ""),
        DataType::UInt32 => prim!(a, i, UInt32Type, out, ""),
        DataType::UInt64 => prim!(a, i, UInt64Type, out, ""),
        DataType::Float16 => out.push_str(&format!("f{}", fl(a.as_primitive::<Float16Type>().value(i).to_f64()))),
        DataType::Float32 => {
            let x = a.as_primitive::<Float32Type>().value(i);
            out.push_str(&if x.is_nan() { "fNaN".to_string() } else { format!("f{x:?}") })
        }
        DataType::Float64 => out.push_str(&format!("f{}", fl(a.as_primitive::<Float64Type>().value(i)))),
        DataType::Decimal32(_, s) => out.push_str(&decimal_text(&a.as_primitive::<Decimal32Type>().value(i).to_string(), *s)),
        DataType::Decimal64(_, s) => out.push_str(&decimal_text(&a.as_primitive::<Decimal64Type>().value(i).to_string(), *s)),
        DataType::Decimal128(_, s) => out.push_str(&decimal_text(&a.as_primitive::<Decimal128Type>().value(i).to_string(), *s)),
        DataType::Decimal256(_, s) => out.push_str(&decimal_text(&a.as_primitive::<Decimal256Type>().value(i).to_string(), *s)),
        DataType::Utf8 => out.push_str(&format!("{:?}", a.as_string::<i32>().value(i))),
        DataType::LargeUtf8 => out.push_str(&format!("{:?}", a.as_string::<i64>().value(i))),
        DataType::Utf8View => out.push_str(&format!("{:?}", a.as_string_view().value(i))),
        DataType::Binary => out.push_str(&format!("x{}", hex(a.as_binary::<i32>().value(i)))),
        DataType::LargeBinary => out.push_str(&format!("x{}", hex(a.as_binary::<i64>().value(i)))),
        DataType::BinaryView => out.push_str(&format!("x{}", hex(a.as_binary_view().value(i)))),
        DataType::FixedSizeBinary(_) => out.push_str(&format!("x{}", hex(a.as_fixed_size_binary().value(i)))),
        DataType::Date32 => prim!(a, i, Date32Type, out, "D"),
        DataType::Date64 => prim!(a, i, Date64Type, out, "Dms"),
        DataType::Time32(TimeUnit::Second) => prim!(a, i, Time32SecondType, out, "Ts"),
        DataType::Time32(_) => prim!(a, i, Time32MillisecondType, out, "Tms"),
        DataType::Time64(TimeUnit::Microsecond) => prim!(a, i, Time64MicrosecondType, out, "Tus"),
        DataType::Time64(_) => prim!(a, i, Time64NanosecondType, out, "Tns"),
        DataType::Timestamp(TimeUnit::Second, _) => prim!(a, i, TimestampSecondType, out, "TSs"),
        DataType::Timestamp(TimeUnit::Millisecond, _) => prim!(a, i, TimestampMillisecondType, out, "TSms"),
        DataType::Timestamp(TimeUnit::Microsecond, _) => prim!(a, i, TimestampMicrosecondType, out, "TSus"),
        DataType::Timestamp(TimeUnit::Nanosecond, _) => prim!(a, i, TimestampNanosecondType, out, "TSns"),
        DataType::Duration(TimeUnit::Second) => prim!(a, i, DurationSecondType, out, "Ds"),
        DataType::Duration(TimeUnit::Millisecond) => prim!(a, i, DurationMillisecondType, out, "Dms"),
        DataType::Duration(TimeUnit::Microsecond) => prim!(a, i, DurationMicrosecondType, out, "Dus"),
        DataType::Duration(TimeUnit::Nanosecond) => prim!(a, i, DurationNanosecondType, out, "Dns"),
        DataType::Interval(IntervalUnit::YearMonth) => prim!(a, i, IntervalYearMonthType, out, "IYM"),
        DataType::Interval(IntervalUnit::DayTime) => {
            let v = a.as_primitive::<IntervalDayTimeType>().value(i);
            out.push_str(&format!("IDT{}d{}ms", v.days, v.milliseconds))
        }
        DataType::Interval(IntervalUnit::MonthDayNano) => {
            let v = a.as_primitive::<IntervalMonthDayNanoType>().value(i);
            out.push_str(&format!("IMDN{}m{}d{}ns", v.months, v.days, v.nanoseconds))
        }
        DataType::List(_) => render_list(a.as_list::<i32>().value(i).as_ref(), out),
        DataType::LargeList(_) => render_list(a.as_list::<i64>().value(i).as_ref(), out),
        DataType::FixedSizeList(_, _) => render_list(a.as_fixed_size_list().value(i).as_ref(), out),
        DataType::ListView(_) => render_list(a.as_list_view::<i32>().value(i).as_ref(), out),
        DataType::LargeListView(_) => render_list(a.as_list_view::<i64>().value(i).as_ref(), out),
        DataType::Struct(_) => {
            let st = a.as_struct();
            out.push('{');
            for (k, c) in st.columns().iter().enumerate() {
                if k > 0 {
                    out.push_str(", ");
                }
                out.push_str(st.fields()[k].name());
                out.push(':');
                render_into(c.as_ref(), i, out);
            }
            out.push('}');
        }
        DataType::Map(_, _) => {
            let m = a.as_map();
            let entries = m.value(i);
            out.push_str("map");
            out.push('[');
            for r in 0..entries.len() {
                if r > 0 {
                    out.push_str(", ");
                }
                render_into(entries.column(0).as_ref(), r, out);
                out.push_str("=>");
                render_into(entries.column(1).as_ref(), r, out);
            }
            out.push(']');
        }
        DataType::Dictionary(_, _) => {
            let d = a.as_any_dictionary();
            if d.keys().is_null(i) {
                out.push_str("NULL");
            } else {
                let k = d.normalized_keys()[i];
                render_into(d.values().as_ref(), k, out);
            }
        }
        _ => {
            // exotic types (run-end encoded, unions): fall back to the ScalarValue debug form
            match ScalarValue::try_from_array(a, i) {
                Ok(sv) => out.push_str(&format!("{sv:?}")),
                Err(e) => out.push_str(&format!("<unrenderable {e}>")),
            }
        }
    }
}

/// decimal as `d<digits>e<exp>` with trailing zeros moved into the exponent: the numeric value only
/// (0.00 at scale 2 and 0 at scale 0 are the same value; result precision / scale is an encoding)
fn decimal_text(unscaled: &str, scale: i8) -> String {
    let (neg, digits) = match unscaled.strip_prefix('-') {
        Some(d) => (true, d),
        None => (false, unscaled),
    };
    let trimmed = digits.trim_end_matches('0');
    if trimmed.is_empty() {
        return "d0".into();
    }
    let exp = (digits.len() - trimmed.len()) as i32 - scale as i32;
    format!("d{}{}e{}", if neg { "-" } else { "" }, trimmed, exp)
}

fn render_list(elems: &dyn Array, out: &mut String) {
    out.push('[');
    for r in 0..elems.len() {
        if r > 0 {
            out.push_str(", ");
        }
        render_into(elems, r, out);
    }
    out.push(']');
}

pub fn render_all(a: &dyn Array) -> Vec<String> {
    (0..a.len()).map(|i| render(a, i)).collect()
}

/// Type with physical encodings erased: string / binary flavours, dictionaries, list flavours (not
/// fixed-size), field names of list items.
pub fn logical_type(dt: &DataType) -> String {
    match dt {
        DataType::Utf8 | DataType::LargeUtf8 | DataType::Utf8View => "String".into(),
        DataType::Binary | DataType::LargeBinary | DataType::BinaryView => "Binary".into(),
        DataType::Dictionary(_, v) => logical_type(v),
        DataType::RunEndEncoded(_, v) => logical_type(v.data_type()),
        DataType::List(f) | DataType::LargeList(f) | DataType::ListView(f) | DataType::LargeListView(f) => format!("List<{}>", logical_type(f.data_type())),
        DataType::FixedSizeList(f, n) => format!("FixedList<{},{n}>", logical_type(f.data_type())),
        DataType::Struct(fs) => format!("Struct<{}>", fs.iter().map(|f| format!("{}:{}", f.name(), logical_type(f.data_type()))).collect::<Vec<_>>().join(",")),
        DataType::Map(f, _) => format!("Map<{}>", logical_type(f.data_type())),
        o => format!("{o}"),
    }
}

// ---------------------------------------------------------------------------------------------
// value pools (proptest strategies); deliberately small-domain and skewed

pub const STRINGS: &[&str] = &[
    "", " ", "a", "A", "ab", "abc", "Abc", "ABC", "b", "hello", "Hello World", "  padded  ", "a,b,c", "a b c", "x=1&y=2", "0", "1", "-1", "42", "3.14", "-0.5", "1e3", "true", "false",
    "null", "é", "ß", "日本語", "😀", "a😀b", "İ", "ǆ", "\u{301}e", "ÀÉÎ", "ﬃ", "tab\there", "line\nbreak", "per%cent", "under_score", "back\\slash", "quote'd", "dq\"d",
    "thisisalongerstringthatdoesnotfitinline", "The quick brown fox jumps over the lazy dog", "aaaaaaaaaaaaaaaaaaaaaaaaaaaaaaaaaaaaaaaa", "ab\u{0}cd", "%Y", "a.b.c", "a/b/c", "{\"a\":1}",
];

pub fn small_string() -> BoxedStrategy<String> {
    prop_oneof![
        6 => prop::sample::select(STRINGS).prop_map(|s| s.to_string()),
        2 => "[a-c]{0,4}".prop_map(|s| s),
        1 => "[a-zA-Z0-9 _%,.éß日😀-]{0,16}".prop_map(|s| s),
    ]
    .boxed()
}

fn int_pool(lo: i128, hi: i128) -> BoxedStrategy<i64> {
    let c = move |x: i128| x.clamp(lo, hi).clamp(i64::MIN as i128, i64::MAX as i128) as i64;
    let edges: Vec<i64> = vec![c(0), c(1), c(-1), c(2), c(3), c(7), c(10), c(-10), c(100), c(127), c(128), c(255), c(256), c(-128), c(1000), c(65535), c(65536), c(lo), c(hi), c(lo + 1), c(hi - 1), c(1 << 31), c((1 << 53) + 1)];
    prop_oneof![
        5 => (-4i64..12).prop_map(move |x| c(x as i128)),
        3 => prop::sample::select(edges),
        1 => any::<i64>().prop_map(move |x| c(x as i128)),
    ]
    .boxed()
}

const FLOATS: &[f64] = &[
    0.0, -0.0, 1.0, -1.0, 0.5, -0.5, 1.5, 2.0, 2.5, 3.0, 10.0, 100.0, 0.1, 0.25, 1e-7, 1e10, 1e15, 123.456, -123.456, 3.141592653589793, 2.718281828459045, 4503599627370496.0,
    9007199254740993.0, 1e300, -1e300, 1e-300, f64::MAX, f64::MIN, f64::MIN_POSITIVE, f64::INFINITY, f64::NEG_INFINITY, f64::NAN, f64::EPSILON, 0.49999999999999994, 1e22,
];

pub const DATE_STRINGS: &[&str] = &[
    "2020-01-01", "2024-02-29", "1970-01-01", "1999-12-31", "2021-03-14T01:59:26", "2024-02-29T12:34:56.789", "1970-01-01T00:00:00Z", "2023-06-15T08:30:00+02:00", "2000-01-01 00:00:00", "2038-01-19 03:14:08",
    "0001-01-01", "9999-12-31", "2020-13-01", "not a date", "12:34:56", "2023-06-15T08:30:00.123456789",
];

/// Strategy of plain values of type `t`. `null_w` in percent. `exact_floats`: floats are dyadic rationals of
/// small magnitude (sums and means of a few hundred of them are exact in f64 and f32).
pub fn value(t: &Ty, null_w: u32, exact_floats: bool) -> BoxedStrategy<V> {
    let non_null = non_null_value(t, exact_floats);
    if null_w == 0 {
        return non_null;
    }
    prop_oneof![
        null_w => Just(V::Null),
        (100 - null_w.min(99)) => non_null,
    ]
    .boxed()
}

pub fn non_null_value(t: &Ty, exact_floats: bool) -> BoxedStrategy<V> {
    match t {
        Ty::Null => Just(V::Null).boxed(),
        Ty::Bool => any::<bool>().prop_map(V::B).boxed(),
        Ty::I8 | Ty::I16 | Ty::I32 | Ty::I64 | Ty::U8 | Ty::U16 | Ty::U32 => {
            let (lo, hi) = int_range(t);
            int_pool(lo, hi).prop_map(V::I).boxed()
        }
        Ty::U64 => prop_oneof![
            6 => int_pool(0, i64::MAX as i128).prop_map(|x| V::U(x as u64)),
            1 => prop::sample::select(vec![u64::MAX, u64::MAX - 1, 1u64 << 63, (1u64 << 63) + 1]).prop_map(V::U),
        ]
        .boxed(),
        Ty::F16 | Ty::F32 | Ty::F64 => {
            if exact_floats {
                (-64i64..=64).prop_map(|k| V::f(k as f64 / 8.0)).boxed()
            } else {
                prop_oneof![
                    4 => prop::sample::select(FLOATS).prop_map(V::f),
                    3 => (-40i64..40).prop_map(|k| V::f(k as f64 / 4.0)),
                    1 => any::<f64>().prop_map(V::f),
                ]
                .boxed()
            }
        }
        Ty::Dec(p, _) | Ty::Dec256(p, _) => {
            let lim = 10i128.pow((*p as u32).min(18)) - 1;
            prop_oneof![
                5 => (-50i64..500).prop_map(V::I),
                2 => int_pool(-lim, lim).prop_map(V::I),
            ]
            .boxed()
        }
        Ty::Utf8 | Ty::LargeUtf8 | Ty::Utf8View => small_string().prop_map(V::S).boxed(),
        Ty::Binary | Ty::LargeBinary | Ty::BinaryView => prop_oneof![
            3 => small_string().prop_map(|s| V::Bin(s.into_bytes())),
            1 => prop::collection::vec(any::<u8>(), 0..20).prop_map(V::Bin),
        ]
        .boxed(),
        Ty::FixedBin(n) => prop::collection::vec(any::<u8>(), *n as usize).prop_map(V::Bin).boxed(),
        Ty::Date32 => prop_oneof![
            4 => (-800i64..20_000).prop_map(V::I),
            1 => prop::sample::select(vec![0i64, -1, 18262, 19782, 11016, -719162, 2932896, 47482]).prop_map(V::I),
        ]
        .boxed(),
        Ty::Date64 => (-800i64..20_000).prop_map(|d| V::I(d * 86_400_000)).boxed(),
        Ty::Time32S => (0i64..86_400).prop_map(V::I).boxed(),
        Ty::Time64Ns => prop_oneof![(0i64..86_400).prop_map(|s| V::I(s * 1_000_000_000)), (0i64..86_400_000_000_000).prop_map(V::I)].boxed(),
        Ty::Ts(u, _) => {
            let mult: i64 = match u {
                0 => 1,
                1 => 1_000,
                2 => 1_000_000,
                _ => 1_000_000_000,
            };
            prop_oneof![
                4 => (-100_000_000i64..2_200_000_000).prop_map(move |s| V::I(s * mult)),
                2 => prop::sample::select(vec![0i64, 1, -1, 1_577_836_800, 1_709_210_096, 951_782_400, 1_616_288_400, 1_635_642_000, 2_147_483_648]).prop_map(move |s| V::I(s * mult)),
                2 => (-100_000_000i64..2_200_000_000, 0i64..1_000_000_000).prop_map(move |(s, f)| V::I(s * mult + f % mult)),
            ]
            .boxed()
        }
        Ty::Dur(_) => prop_oneof![(-1000i64..100_000).prop_map(V::I), any::<i32>().prop_map(|x| V::I(x as i64 * 1000))].boxed(),
        Ty::IntervalYM | Ty::IntervalDT | Ty::IntervalMDN => prop_oneof![
            3 => prop::sample::select(vec![(0, 0, 1_000_000_000i64), (0, 0, 60_000_000_000), (0, 0, 900_000_000_000), (0, 0, 3_600_000_000_000), (0, 1, 0), (0, 7, 0), (1, 0, 0), (3, 0, 0), (12, 0, 0), (0, 0, 1_000_000), (1, 1, 1_000_000_000), (0, 0, 0), (0, -1, 0), (-1, 0, 0)]).prop_map(|(m, d, n)| V::Iv(m, d, n)),
            1 => (-30i32..30, -40i32..40, -100_000i64..100_000).prop_map(|(m, d, n)| V::Iv(m, d, n * 1_000_000)),
        ]
        .boxed(),
        Ty::List(e) | Ty::LargeList(e) => prop::collection::vec(value(e, 15, exact_floats), 0..5).prop_map(V::L).boxed(),
        Ty::FixedList(e, n) => prop::collection::vec(value(e, 15, exact_floats), *n as usize).prop_map(V::L).boxed(),
        Ty::Struct(fs) => {
            let strategies: Vec<BoxedStrategy<V>> = fs.iter().map(|(_, t)| value(t, 15, exact_floats)).collect();
            strategies.prop_map(V::St).boxed()
        }
        Ty::Map(k, v) => prop::collection::vec((non_null_value(k, exact_floats), value(v, 15, exact_floats)), 0..4)
            .prop_map(|es| {
                let mut out: Vec<(V, V)> = vec![];
                for (k, v) in es {
                    if !out.iter().any(|(k2, _)| *k2 == k) {
                        out.push((k, v));
                    }
                }
                V::M(out)
            })
            .boxed(),
        Ty::Dict(_, inner) => non_null_value(inner, exact_floats),
    }
}
