//! Scalar-function catalog and argument generators of vf-ffi (adapted copy of the private generator of
//! vf-fn `c32.rs`, so both crates can evolve independently): every default + nested `ScalarUDF` with the
//! argument type vectors that are fixpoints of the planner's coercion, and per-position value hints
//! (date parts, strftime formats, regexes, ...), so most generated calls succeed.
//!
//! Differences to the vf-fn original: volatile functions and the "physical type" deny-list of C32 are IN
//! scope here (the FFI differential compares the same physical inputs on both sides; for volatile
//! functions only shape and type are compared), and `arrow_cast`-style functions get a type-name hint.
#![allow(dead_code)]
use crate::vals::*;
use arrow::datatypes::{Field, FieldRef};
use datafusion::logical_expr::type_coercion::functions::fields_with_udf;
use datafusion::logical_expr::{ScalarUDF, TypeSignature};
use proptest::prelude::*;
use std::sync::{Arc, OnceLock};

pub const UNSUPPORTED_INPUT: &[(&str, &str)] = &[("union_extract", "union arguments are not generated"), ("union_tag", "union arguments are not generated")];

pub struct FnInfo {
    pub name: String,
    pub udf: Arc<ScalarUDF>,
    pub vectors: Vec<Vec<Ty>>,
    pub candidates: usize,
}

pub fn full_pool() -> Vec<Ty> {
    let l = |t: Ty| Ty::List(Box::new(t));
    vec![
        Ty::Null,
        Ty::Bool,
        Ty::I8,
        Ty::I16,
        Ty::I32,
        Ty::I64,
        Ty::U8,
        Ty::U16,
        Ty::U32,
        Ty::U64,
        Ty::F32,
        Ty::F64,
        Ty::Dec(10, 2),
        Ty::Dec(38, 10),
        Ty::Utf8,
        Ty::LargeUtf8,
        Ty::Utf8View,
        Ty::Binary,
        Ty::LargeBinary,
        Ty::BinaryView,
        Ty::Date32,
        Ty::Date64,
        Ty::Time64Ns,
        Ty::Ts(3, None),
        Ty::Ts(1, None),
        Ty::Ts(0, None),
        Ty::Ts(3, Some("+01:00".into())),
        Ty::Ts(2, Some("America/New_York".into())),
        Ty::Dur(3),
        Ty::IntervalYM,
        Ty::IntervalDT,
        Ty::IntervalMDN,
        l(Ty::I64),
        l(Ty::Utf8),
        l(Ty::F64),
        l(l(Ty::I64)),
        Ty::LargeList(Box::new(Ty::I64)),
        Ty::FixedList(Box::new(Ty::I64), 3),
        Ty::Struct(vec![("a".into(), Ty::I64), ("b".into(), Ty::Utf8)]),
        Ty::Map(Box::new(Ty::Utf8), Box::new(Ty::I64)),
        Ty::Dict(false, Box::new(Ty::Utf8)),
    ]
}

pub fn reduced_pool() -> Vec<Ty> {
    let l = |t: Ty| Ty::List(Box::new(t));
    vec![Ty::I64, Ty::I32, Ty::F64, Ty::Utf8, Ty::Utf8View, Ty::LargeUtf8, Ty::Bool, Ty::Ts(3, None), Ty::Date32, Ty::IntervalMDN, l(Ty::I64), l(Ty::Utf8), Ty::Binary, Ty::Null]
}

fn arities(sig: &TypeSignature, out: &mut Vec<usize>) {
    match sig {
        TypeSignature::Exact(v) => out.push(v.len()),
        TypeSignature::Uniform(n, _) | TypeSignature::Numeric(n) | TypeSignature::String(n) | TypeSignature::Comparable(n) | TypeSignature::Any(n) => out.push(*n),
        TypeSignature::Coercible(v) => out.push(v.len()),
        TypeSignature::Nullary => out.push(0),
        TypeSignature::Variadic(_) | TypeSignature::VariadicAny => out.extend([1, 2, 3]),
        TypeSignature::UserDefined => out.extend([0, 1, 2, 3, 4]),
        TypeSignature::OneOf(sigs) => {
            for s in sigs {
                arities(s, out)
            }
        }
        TypeSignature::ArraySignature(a) => {
            use datafusion::logical_expr_common::signature::ArrayFunctionSignature as A;
            match a {
                A::Array { arguments, .. } => out.push(arguments.len()),
                A::RecursiveArray | A::MapArray => out.push(1),
            }
        }
    }
}

pub fn fields_of(types: &[Ty]) -> Vec<FieldRef> {
    types.iter().enumerate().map(|(i, t)| Arc::new(Field::new(format!("a{i}"), t.dt(), true))).collect()
}

/// coercion of `types` is the identity
pub fn is_fixpoint(udf: &ScalarUDF, types: &[Ty]) -> bool {
    if types.is_empty() {
        return udf.signature().type_signature.supports_zero_argument() || matches!(udf.signature().type_signature, TypeSignature::UserDefined | TypeSignature::VariadicAny);
    }
    match fields_with_udf(&fields_of(types), udf) {
        Ok(f) => f.len() == types.len() && f.iter().zip(types.iter()).all(|(f, t)| f.data_type() == &t.dt()),
        Err(_) => false,
    }
}

pub fn coerce(udf: &ScalarUDF, cand: &[Ty]) -> Option<Vec<Ty>> {
    if cand.is_empty() {
        return if udf.signature().type_signature.supports_zero_argument() { Some(vec![]) } else { None };
    }
    let co = fields_with_udf(&fields_of(cand), udf).ok()?;
    let tv = co.iter().map(|f| Ty::from_dt_exact(f.data_type())).collect::<Option<Vec<Ty>>>()?;
    if is_fixpoint(udf, &tv) { Some(tv) } else { None }
}

fn int_only(name: &str) -> bool {
    matches!(name, "range" | "generate_series")
}

/// Over-permissive (variadic-any / user-defined) signatures: keep the type vectors the implementation can
/// possibly evaluate, so that cases are not wasted on clean rejections.
fn vector_makes_sense(name: &str, tv: &[Ty]) -> bool {
    match name {
        "to_timestamp" | "to_timestamp_seconds" | "to_timestamp_millis" | "to_timestamp_micros" | "to_timestamp_nanos" | "to_date" | "to_unixtime" | "to_time" => tv.len() <= 1 || tv.iter().all(|t| t.is_string()),
        "map" => tv.len() == 2 && tv.iter().all(|t| matches!(t, Ty::List(_) | Ty::LargeList(_) | Ty::FixedList(_, _))),
        "named_struct" => tv.len() % 2 == 0 && tv.iter().step_by(2).all(|t| *t == Ty::Utf8),
        "with_metadata" => tv.len() % 2 == 1 && tv.len() >= 3 && tv[1..].iter().all(|t| *t == Ty::Utf8),
        "arrays_zip" => tv.iter().all(|t| matches!(t, Ty::List(_) | Ty::LargeList(_) | Ty::FixedList(_, _) | Ty::Null)),
        _ => true,
    }
}

pub fn catalog() -> &'static Vec<FnInfo> {
    static CAT: OnceLock<Vec<FnInfo>> = OnceLock::new();
    CAT.get_or_init(|| {
        let pool = full_pool();
        let small = reduced_pool();
        let mut fns: Vec<Arc<ScalarUDF>> = datafusion::functions::all_default_functions();
        fns.extend(datafusion::functions_nested::all_default_nested_functions());
        fns.sort_by(|a, b| a.name().cmp(b.name()));
        fns.dedup_by(|a, b| a.name() == b.name());
        let mut out = vec![];
        for udf in fns {
            let name = udf.name().to_string();
            if UNSUPPORTED_INPUT.iter().any(|(d, _)| *d == name) {
                continue;
            }
            let mut ar = vec![];
            arities(&udf.signature().type_signature, &mut ar);
            ar.sort();
            ar.dedup();
            let mut cands: Vec<Vec<Ty>> = vec![];
            for ex in udf.signature().type_signature.get_example_types() {
                if let Some(v) = ex.iter().map(Ty::from_dt).collect::<Option<Vec<Ty>>>() {
                    cands.push(v);
                }
            }
            for n in &ar {
                match *n {
                    0 => cands.push(vec![]),
                    1 => cands.extend(pool.iter().map(|t| vec![t.clone()])),
                    2 => {
                        for a in &pool {
                            for b in &pool {
                                cands.push(vec![a.clone(), b.clone()]);
                            }
                        }
                    }
                    3 => {
                        for a in &pool {
                            cands.push(vec![a.clone(); 3]);
                        }
                        for a in &small {
                            for b in &small {
                                for c in &small {
                                    cands.push(vec![a.clone(), b.clone(), c.clone()]);
                                }
                            }
                        }
                    }
                    n => {
                        for a in &pool {
                            cands.push(vec![a.clone(); n]);
                        }
                    }
                }
            }
            let candidates = cands.len();
            let mut vectors: Vec<Vec<Ty>> = vec![];
            let mut seen = std::collections::BTreeSet::new();
            for c in cands {
                if let Some(tv) = coerce(&udf, &c) {
                    if (int_only(&name) && !tv.iter().all(|t| t.is_int())) || !vector_makes_sense(&name, &tv) {
                        continue;
                    }
                    if seen.insert(tv.clone()) {
                        vectors.push(tv);
                    }
                }
            }
            // arity 4 and 5: extend accepted vectors of the previous arity by the reduced pool
            for n in ar.iter().filter(|n| **n >= 4) {
                let prev: Vec<Vec<Ty>> = vectors.iter().filter(|v| v.len() == n - 1).take(80).cloned().collect();
                for p in prev {
                    for t in &small {
                        let mut c = p.clone();
                        c.push(t.clone());
                        if let Some(tv) = coerce(&udf, &c) {
                            if seen.insert(tv.clone()) {
                                vectors.push(tv);
                            }
                        }
                    }
                }
            }
            vectors.sort();
            out.push(FnInfo { name, udf, vectors, candidates });
        }
        // harness-owned function that makes the transported ConfigOptions observable (only `to_unixtime` among
        // the built-ins reads them at invocation time)
        out.push(FnInfo { name: "vf_config_echo".into(), udf: Arc::new(ScalarUDF::new_from_impl(ConfigEcho::new())), vectors: vec![vec![]], candidates: 1 });
        out
    })
}

pub fn find_fn(name: &str) -> Option<&'static FnInfo> {
    catalog().iter().find(|f| f.name == name)
}

// ---------------------------------------------------------------------------------------------
// value hints: the dictionary of well-known literals

const DATE_PARTS: &[&str] = &["year", "month", "day", "hour", "minute", "second", "millisecond", "microsecond", "nanosecond", "week", "dow", "doy", "quarter", "epoch", "isodow", "YEAR", "decade", "century"];
const STRFTIME: &[&str] = &["%Y-%m-%d", "%H:%M:%S", "%Y-%m-%dT%H:%M:%S", "%Y-%m-%d %H:%M:%S%.f", "%d/%m/%Y", "%Y%m%d", "%+", "%s", "%Y-%m-%dT%H:%M:%S%z", "%B %d, %Y", "%j", "%A", "%Y-%m-%d %H:%M:%S%.3f %Z"];
const REGEXES: &[&str] = &["a", "a+", "^a", "b$", "[a-c]+", "(a)(b)?", "\\d+", "\\s", ".", ".*", "^$", "(?i)ABC", "[", "a|b", "(\\w+) (\\w+)", "é", "^.{2}", "x*"];
const REGEX_FLAGS: &[&str] = &["i", "g", "m", "s", "gi", "", "x"];
const ENCODINGS: &[&str] = &["base64", "hex", "base64pad", "BASE64", "utf8"];
const DIGESTS: &[&str] = &["md5", "sha224", "sha256", "sha384", "sha512", "blake2s", "blake2b", "blake3", "sha1"];
const TZ_NAMES: &[&str] = &["UTC", "+01:00", "-05:30", "America/New_York", "Europe/Brussels", "Asia/Tokyo", "Z", "nowhere/land"];
const NUM_STRINGS: &[&str] = &["0", "1", "-1", "42", "3.14", "-0.5", "1e3", "ff", "7fffffff", " 12 ", "+5", "1_000", "NaN", "inf", "0x1f", "12abc"];
const SEPARATORS: &[&str] = &[",", " ", "", "-", "ab", ", ", "é"];
const ARRAY_STRINGS: &[&str] = &["a,b,c", "1,2,3", "a b c", "", "abc", ",a,,b,", "x"];

#[derive(Clone, Copy, Debug, PartialEq)]
pub enum Hint {
    None,
    DatePart,
    Strftime,
    Regex,
    RegexFlags,
    Encoding,
    Digest,
    Tz,
    DateStr,
    NumStr,
    Separator,
    ArrayStr,
    /// small non-negative count (bounded output size)
    Count,
    /// small signed integer
    SmallInt,
    /// non-null field / key name
    FieldName,
    /// hex / base64 text
    Encoded,
    /// arrow type name (arrow_cast)
    TypeName,
}

pub fn hint(name: &str, pos: usize, t: &Ty) -> Hint {
    let s = t.is_string();
    let i = t.is_int();
    match (name, pos) {
        ("date_part" | "date_trunc" | "datepart" | "datetrunc" | "extract", 0) if s => Hint::DatePart,
        ("to_char" | "date_format", 1) if s => Hint::Strftime,
        ("to_timestamp" | "to_timestamp_seconds" | "to_timestamp_millis" | "to_timestamp_micros" | "to_timestamp_nanos" | "to_date" | "to_unixtime" | "to_time", 0) if s => Hint::DateStr,
        ("to_timestamp" | "to_timestamp_seconds" | "to_timestamp_millis" | "to_timestamp_micros" | "to_timestamp_nanos" | "to_date" | "to_unixtime" | "to_time", _) if s => Hint::Strftime,
        ("regexp_like" | "regexp_match" | "regexp_replace" | "regexp_count" | "regexp_instr" | "regexp_extract", 1) if s => Hint::Regex,
        ("regexp_like" | "regexp_match", 2) if s => Hint::RegexFlags,
        ("regexp_replace", 3) if s => Hint::RegexFlags,
        ("regexp_count" | "regexp_instr", p) if s && p >= 3 => Hint::RegexFlags,
        ("regexp_count" | "regexp_instr", _) if i => Hint::SmallInt,
        ("encode" | "decode", 1) if s => Hint::Encoding,
        ("decode", 0) => Hint::Encoded,
        ("digest", 1) if s => Hint::Digest,
        ("to_local_time" | "from_unixtime" | "at_time_zone", _) if s => Hint::Tz,
        ("from_unixtime", 0) => Hint::SmallInt,
        ("repeat" | "lpad" | "rpad" | "array_repeat" | "array_resize" | "space", 1) if i => Hint::Count,
        ("lpad" | "rpad", _) if i => Hint::Count,
        ("range" | "generate_series", _) if i => Hint::SmallInt,
        ("array_to_string", 1) | ("string_to_array", 1) | ("concat_ws", 0) | ("split_part", 1) if s => Hint::Separator,
        ("string_to_array", 0) if s => Hint::ArrayStr,
        ("split_part", 0) if s => Hint::ArrayStr,
        ("split_part" | "left" | "right" | "substr" | "substring" | "substr_index" | "substring_index" | "overlay" | "array_slice" | "array_element" | "array_remove_n" | "array_replace_n" | "array_position" | "strpos" | "chr" | "round" | "trunc" | "factorial" | "power" | "pow", _) if i => Hint::SmallInt,
        ("to_hex", _) => Hint::None,
        ("make_date" | "make_time", _) if i => Hint::SmallInt,
        ("make_date" | "make_time", _) if s => Hint::NumStr,
        ("date_bin", _) => Hint::None,
        ("arrow_cast" | "arrow_try_cast", 1) if s => Hint::TypeName,
        ("get_field", 1) if s => Hint::FieldName,
        ("named_struct", p) if s && p % 2 == 0 => Hint::FieldName,
        ("with_metadata", p) if s && p >= 1 => Hint::FieldName,
        _ => Hint::None,
    }
}

pub fn hinted_value(h: Hint, t: &Ty) -> Option<BoxedStrategy<V>> {
    let pick = |xs: &'static [&'static str]| prop::sample::select(xs).prop_map(|s| V::S(s.to_string())).boxed();
    Some(match h {
        Hint::None => return None,
        Hint::DatePart => pick(DATE_PARTS),
        Hint::Strftime => pick(STRFTIME),
        Hint::Regex => pick(REGEXES),
        Hint::RegexFlags => pick(REGEX_FLAGS),
        Hint::Encoding => pick(ENCODINGS),
        Hint::Digest => pick(DIGESTS),
        Hint::Tz => pick(TZ_NAMES),
        Hint::DateStr => pick(DATE_STRINGS),
        Hint::NumStr => {
            if t.is_string() {
                pick(NUM_STRINGS)
            } else {
                return None;
            }
        }
        Hint::Separator => pick(SEPARATORS),
        Hint::Encoded => match t {
            Ty::Utf8 | Ty::LargeUtf8 | Ty::Utf8View => pick(&["ff", "42", "7fffffff", "aGVsbG8=", "YQ==", "", "00", "YWJj", "zz", "a"]),
            _ => prop::sample::select(vec!["ff", "42", "aGVsbG8=", "YQ==", "", "00", "YWJj"]).prop_map(|s| V::Bin(s.as_bytes().to_vec())).boxed(),
        },
        Hint::FieldName => pick(&["a", "b", "c", "key", "x y", "A"]),
        Hint::TypeName => pick(&["Int64", "Utf8", "Float64", "Int8", "Boolean", "LargeUtf8", "Timestamp(Nanosecond, None)", "Date32", "Utf8View"]),
        Hint::ArrayStr => pick(ARRAY_STRINGS),
        Hint::Count => match t {
            Ty::U64 => (0u64..12).prop_map(V::U).boxed(),
            _ => prop_oneof![8 => (0i64..12).prop_map(V::I), 1 => Just(V::I(-1)), 1 => Just(V::I(40))].boxed(),
        },
        Hint::SmallInt => match t {
            Ty::U8 | Ty::U16 | Ty::U32 => (0i64..14).prop_map(V::I).boxed(),
            Ty::U64 => (0u64..14).prop_map(V::U).boxed(),
            _ => prop_oneof![8 => (-4i64..14).prop_map(V::I), 1 => prop::sample::select(vec![-100i64, 100, 2024, 1970]).prop_map(V::I)].boxed(),
        },
    })
}

/// generic string pool: general strings plus a sprinkle of every well-known literal family
pub fn string_value() -> BoxedStrategy<V> {
    prop_oneof![
        10 => small_string().prop_map(V::S),
        2 => prop::sample::select(DATE_STRINGS).prop_map(|s| V::S(s.to_string())),
        1 => prop::sample::select(NUM_STRINGS).prop_map(|s| V::S(s.to_string())),
        1 => prop::sample::select(DATE_PARTS).prop_map(|s| V::S(s.to_string())),
        1 => prop::sample::select(REGEXES).prop_map(|s| V::S(s.to_string())),
        1 => prop::sample::select(TZ_NAMES).prop_map(|s| V::S(s.to_string())),
    ]
    .boxed()
}

pub fn arg_value(name: &str, pos: usize, t: &Ty) -> BoxedStrategy<V> {
    let h = hint(name, pos, t);
    let base: BoxedStrategy<V> = match hinted_value(h, t) {
        Some(hv) => {
            if matches!(h, Hint::FieldName | Hint::TypeName) {
                return hv;
            }
            if matches!(h, Hint::Count | Hint::SmallInt) {
                // bounded-size hints are hard limits
                hv
            } else {
                prop_oneof![6 => hv, 1 => non_null_value(t, false)].boxed()
            }
        }
        None => match t {
            Ty::Utf8 | Ty::LargeUtf8 | Ty::Utf8View => string_value(),
            _ => non_null_value(t, false),
        },
    };
    if matches!(t, Ty::Null) {
        return Just(V::Null).boxed();
    }
    prop_oneof![1 => Just(V::Null), 7 => base].boxed()
}



// ---------------------------------------------------------------------------------------------

/// `vf_config_echo()` → "<execution.time_zone>|<execution.batch_size>|<number_rows>" as a Utf8 array of
/// `number_rows` rows
#[derive(Debug, PartialEq, Eq, Hash)]
pub struct ConfigEcho {
    signature: datafusion::logical_expr::Signature,
}

impl ConfigEcho {
    pub fn new() -> Self {
        ConfigEcho { signature: datafusion::logical_expr::Signature::nullary(datafusion::logical_expr::Volatility::Stable) }
    }
}

impl datafusion::logical_expr::ScalarUDFImpl for ConfigEcho {
    fn name(&self) -> &str {
        "vf_config_echo"
    }
    fn signature(&self) -> &datafusion::logical_expr::Signature {
        &self.signature
    }
    fn return_type(&self, _arg_types: &[arrow::datatypes::DataType]) -> datafusion::common::Result<arrow::datatypes::DataType> {
        Ok(arrow::datatypes::DataType::Utf8)
    }
    fn invoke_with_args(&self, args: datafusion::logical_expr::ScalarFunctionArgs) -> datafusion::common::Result<datafusion::logical_expr::ColumnarValue> {
        let text = format!("{:?}|{}|{}", args.config_options.execution.time_zone, args.config_options.execution.batch_size, args.number_rows);
        let arr = arrow::array::StringArray::from(vec![text; args.number_rows]);
        Ok(datafusion::logical_expr::ColumnarValue::Array(Arc::new(arr)))
    }
}
