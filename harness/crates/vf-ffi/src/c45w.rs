//! C45 part w — window UDFs wrapped as `FFI_WindowUDF` (and their partition evaluators as
//! `FFI_PartitionEvaluator`) used through the foreign path behave as native.
//!
//! Domain: the 11 UDFs of `all_default_window_functions()` (row_number, rank, dense_rank, percent_rank,
//! cume_dist, ntile(n), lag / lead(expr[, offset[, default]]), first_value / last_value(expr),
//! nth_value(expr, n)) with IGNORE NULLS and `is_reversed` variants; argument values from per-type pools
//! with NULLs, 0–16 (thorough 0–40) rows per partition, literal offsets / defaults as `Literal` expressions,
//! ORDER BY key runs for the rank family, arbitrary frames `[lo, hi)` for frame-based evaluators.
//!
//! Objects compared: N native evaluator (`udwf.partition_evaluator_factory(args)`), U the evaluator obtained
//! through `ForeignWindowUDF::partition_evaluator` (UDF marker overridden; `PartitionEvaluatorArgs` travel as
//! `FFI_PartitionEvaluatorArgs`), F a forced `ForeignPartitionEvaluator` (the raw `FFI_PartitionEvaluator`
//! returned by the struct's entry point with its own marker overridden). They are driven exactly as
//! `StandardWindowExpr::evaluate` / `evaluate_stateful` drive an evaluator, selected by the (carried) flags:
//!   uses_window_frame      → `evaluate(values ++ order-by values, range)` per row,
//!   include_rank           → `evaluate_all_with_rank(num_rows, rank ranges)`,
//!   otherwise              → `evaluate_all(values, num_rows)`;
//!   supports_bounded_execution (fresh evaluators) → per row `get_range(idx, n)` + `evaluate(values, range)`.
//! Oracle: flags `is_causal`, `supports_bounded_execution`, `uses_window_frame`, `include_rank` equal; every
//! call returns equal values and types, or fails on all sides. Metadata through `ForeignWindowUDF`: name,
//! aliases, volatility, `sort_options`, `field(args)`, coercion (`fields_with_udf`).
//! Not compared (not in the FFI struct): `expressions`, `reverse_expr`, `limit_effect`, `simplify`, `memoize`
//! (documented no-op on the foreign side; it only prunes state). Inputs are the argument arrays as given on all
//! sides (the native `expressions()` rewrite of lead/lag is applied to none).
//!
//! Non-trivial: a native call returned at least one non-NULL value that was compared with F.
//!
//! Sensitivity probes (probes/probes.diff via tools/mutrun, quick tier):
//!  p9  FFI_PartitionEvaluatorArgs drops ignore_nulls        → VIOLATION "first_value(Bool) IGNORE NULLS: evaluate(row 11, range 10..14): native false .. foreign NULL"
//!  p10 FFI_Range → Range conversion shortens the end by one → VIOLATION "cume_dist(): evaluate_all: native [..] foreign [..]"
use crate::vals::*;
use crate::{FOREIGN_MARKER_NOTE, harness_marker};
use arrow::array::{Array, ArrayRef, Int64Array};
use arrow::datatypes::{DataType, Field, FieldRef, Schema};
use datafusion::common::{DataFusionError, ScalarValue};
use datafusion::logical_expr::function::{PartitionEvaluatorArgs, WindowUDFFieldArgs};
use datafusion::logical_expr::type_coercion::functions::fields_with_udf;
use datafusion::logical_expr::{PartitionEvaluator, WindowUDF, WindowUDFImpl};
use datafusion::physical_expr::PhysicalExpr;
use datafusion::physical_expr::expressions::{Column, Literal};
use datafusion_ffi::udwf::{FFI_WindowUDF, ForeignWindowUDF};
use proptest::prelude::*;
use serde::{Deserialize, Serialize};
use serde_json::{Value, json};
use std::collections::BTreeMap;
use std::ops::Range;
use std::sync::{Arc, Mutex, OnceLock};
use vf_kit::engine::*;

pub struct C45w;

#[derive(Clone, Debug, Serialize, Deserialize)]
pub struct Case {
    pub func: String,
    /// type of the value argument (lead/lag/first/last/nth); ignored by the others
    pub ty: Ty,
    /// integer literal: ntile n, lead/lag offset, nth_value n
    pub n_lit: Option<i64>,
    /// lead/lag default (only with an offset)
    pub default: Option<V>,
    pub ignore_nulls: bool,
    pub is_reversed: bool,
    pub vals: Vec<V>,
    /// ORDER BY key run lengths source: key per row (sorted before use)
    pub keys: Vec<u8>,
    /// frames per row as fractions
    pub frames: Vec<(u16, u16)>,
}

const VALUE_FNS: &[&str] = &["lag", "lead", "first_value", "last_value", "nth_value"];

fn udwfs() -> &'static Vec<Arc<WindowUDF>> {
    static C: OnceLock<Vec<Arc<WindowUDF>>> = OnceLock::new();
    C.get_or_init(|| {
        let mut v = datafusion::functions_window::all_default_window_functions();
        v.sort_by(|a, b| a.name().cmp(b.name()));
        v
    })
}

fn type_pool() -> Vec<Ty> {
    vec![Ty::I64, Ty::I32, Ty::U8, Ty::F64, Ty::Utf8, Ty::Utf8View, Ty::LargeUtf8, Ty::Bool, Ty::Date32, Ty::Ts(3, None), Ty::Ts(1, Some("+01:00".into())), Ty::Dec(10, 2), Ty::Binary, Ty::List(Box::new(Ty::I64)), Ty::Struct(vec![("a".into(), Ty::I64), ("b".into(), Ty::Utf8)]), Ty::Null, Ty::IntervalMDN]
}

fn case_strategy(tier: Tier) -> BoxedStrategy<Case> {
    let names: Vec<String> = udwfs().iter().map(|u| u.name().to_string()).collect();
    let pool = type_pool();
    let max_rows: usize = tier.pick(16, 40);
    (any::<u16>(), any::<u16>(), 0usize..=max_rows)
        .prop_flat_map(move |(fi, ti, n)| {
            let name = names[pick_index(fi, names.len())].clone();
            let ty = pool[pick_index(ti, pool.len())].clone();
            let n_lit: BoxedStrategy<Option<i64>> = match name.as_str() {
                "ntile" => prop::sample::select(vec![1i64, 2, 3, 4, 7, 100]).prop_map(Some).boxed(),
                "lag" | "lead" => prop_oneof![2 => Just(None), 5 => prop::sample::select(vec![0i64, 1, 2, 3, 5, -1, -2, 50]).prop_map(Some)].boxed(),
                "nth_value" => prop::sample::select(vec![1i64, 2, 3, 5, -1, -2, 0]).prop_map(Some).boxed(),
                _ => Just(None).boxed(),
            };
            let default: BoxedStrategy<Option<V>> = if matches!(name.as_str(), "lag" | "lead") { prop_oneof![2 => Just(None), 1 => Just(Some(V::Null)), 3 => non_null_value(&ty, false).prop_map(Some)].boxed() } else { Just(None).boxed() };
            (
                (Just(name), Just(ty.clone()), n_lit, default, prop::bool::weighted(0.3), prop::bool::weighted(0.2)),
                prop::collection::vec(value(&ty, 25, false), n),
                prop::collection::vec(0u8..5, n),
                prop::collection::vec((any::<u16>(), any::<u16>()), n),
            )
        })
        .prop_map(|((func, ty, n_lit, mut default, ignore_nulls, is_reversed), vals, keys, frames)| {
            if n_lit.is_none() {
                default = None;
            }
            Case { func, ty, n_lit, default, ignore_nulls, is_reversed, vals, keys, frames }
        })
        .boxed()
}

fn call_entry<A, T, R>(f: unsafe extern "C" fn(&FFI_WindowUDF, T) -> R, ffi: &FFI_WindowUDF, a: A) -> Result<R, DataFusionError>
where
    T: TryFrom<A, Error = DataFusionError>,
{
    let t = T::try_from(a)?;
    Ok(unsafe { f(ffi, t) })
}

pub fn foreign_udwf(udwf: &Arc<WindowUDF>) -> Result<(FFI_WindowUDF, WindowUDF), String> {
    let mut ffi = FFI_WindowUDF::from(Arc::clone(udwf));
    ffi.library_marker_id = harness_marker;
    let imp: Arc<dyn WindowUDFImpl> = (&ffi).into();
    if !imp.as_ref().is::<ForeignWindowUDF>() {
        return Err(format!("marker override did not force the foreign path ({FOREIGN_MARKER_NOTE})"));
    }
    Ok((ffi, WindowUDF::new_from_shared_impl(imp)))
}

fn forced_evaluator(ffi: &FFI_WindowUDF, args: PartitionEvaluatorArgs) -> Result<Box<dyn PartitionEvaluator>, String> {
    let r = call_entry(ffi.partition_evaluator, ffi, args).map_err(|e| e.to_string())?;
    let mut ev = r.into_result().map_err(|e| e.to_string())?;
    ev.library_marker_id = harness_marker;
    Ok(ev.into())
}

fn render_scalar(v: &ScalarValue) -> String {
    match v.to_array() {
        Ok(a) => format!("{} [{}]", render(a.as_ref(), 0), a.data_type()),
        Err(e) => format!("<unrenderable {e}>"),
    }
}

fn arr_desc(a: &ArrayRef) -> String {
    format!("{:?} [{}]", render_all(a.as_ref()), a.data_type())
}

fn stats() -> &'static Mutex<BTreeMap<String, [u64; 3]>> {
    static S: OnceLock<Mutex<BTreeMap<String, [u64; 3]>>> = OnceLock::new();
    S.get_or_init(|| Mutex::new(BTreeMap::new()))
}

fn bump(name: &str, slot: usize) {
    if let Ok(mut m) = stats().lock() {
        m.entry(name.to_string()).or_insert([0; 3])[slot] += 1;
    }
}

impl Property for C45w {
    type Case = Case;
    fn id(&self) -> &'static str {
        "C45"
    }
    fn sub(&self) -> &'static str {
        "c45w"
    }
    fn strategy(&self, tier: Tier) -> BoxedStrategy<Case> {
        case_strategy(tier)
    }
    fn budget(&self, tier: Tier) -> Budget {
        Budget::new(tier.pick(800, 400_000), tier.pick(8, 16)).min_nontrivial(tier.pick(200, 100_000)).discard_cap(0.5)
    }
    fn rule(&self) -> String {
        "window function drawn uniformly from the 11 default window UDFs, value type from a pool of 17 types, literal offsets/defaults, IGNORE NULLS / reversed, 0-16 rows (thorough 0-40) with NULLs, order-key runs, arbitrary frames; \
         native evaluator vs evaluator via ForeignWindowUDF vs forced ForeignPartitionEvaluator driven as StandardWindowExpr::evaluate / evaluate_stateful do; non-trivial = a native call returned >= 1 non-NULL value that was compared; \
         distinct by case JSON; labels fn=<name> count such cases"
            .into()
    }
    fn assumptions(&self) -> Vec<String> {
        vec![
            "differential oracle: all evaluators receive identical call sequences".to_string(),
            "expressions(), reverse_expr(), limit_effect(), simplify(), memoize() are not carried by FFI_WindowUDF / FFI_PartitionEvaluator and are not compared".to_string(),
            "nested FFI_PhysicalExpr inside the evaluator arguments keep the library's own marker (unwrapped locally)".to_string(),
            format!("foreign path forced by overwriting the public library_marker_id fields ({FOREIGN_MARKER_NOTE})"),
        ]
    }
    fn run(&self, case: &Case) -> CaseResult {
        crate::foreign(|| run_case(case))
    }
    fn extra(&self, _tier: Tier, _seed: u64) -> Result<Value, (String, Case)> {
        let st = stats().lock().map(|m| m.clone()).unwrap_or_default();
        let mut per_fn = serde_json::Map::new();
        let mut zero = vec![];
        for u in udwfs() {
            let s = st.get(u.name()).copied().unwrap_or([0; 3]);
            per_fn.insert(u.name().to_string(), json!({"cases": s[0], "compared": s[1], "nontrivial": s[2]}));
            if s[1] == 0 {
                zero.push(u.name().to_string());
            }
        }
        Ok(json!({"per_function": per_fn, "functions_with_zero_successes": zero, "functions_in_scope": udwfs().len()}))
    }
}

fn run_case(case: &Case) -> CaseResult {
    let Some(native) = udwfs().iter().find(|u| u.name() == case.func) else { return CaseResult::discard("unknown function") };
    let name = native.name();
    let n = case.vals.len();
    if case.keys.len() != n || case.frames.len() != n {
        return CaseResult::discard("malformed case");
    }
    bump(name, 0);
    crate::set_current_case("c45w", case);
    let mut labels: Vec<String> = vec![];
    let takes_value = VALUE_FNS.contains(&name);
    let sig = format!("{name}({}{}{}){}{}", if takes_value { case.ty.short() } else { String::new() }, case.n_lit.map(|x| format!(", {x}")).unwrap_or_default(), case.default.as_ref().map(|d| format!(", {d:?}")).unwrap_or_default(), if case.ignore_nulls { " IGNORE NULLS" } else { "" }, if case.is_reversed { " reversed" } else { "" });
    macro_rules! violation {
        ($($arg:tt)*) => {
            return CaseResult::violation(format!("{sig}: {}", format!($($arg)*))).labels(labels.clone())
        };
    }
    let (ffi, foreign) = match foreign_udwf(native) {
        Ok(x) => x,
        Err(e) => violation!("{e}"),
    };
    // a NATIVE call with panic capture (a native panic is not an FFI matter and would abort the process inside an
    // extern "C" entry point): the case ends before the foreign side is called
    macro_rules! nat {
        ($e:expr) => {
            match crate::guard(|| $e) {
                Ok(r) => r,
                Err(p) => {
                    labels.push(format!("native-panic:fn={name}:{}", truncate(&p, 40)));
                    return CaseResult::pass().labels(labels);
                }
            }
        };
    }
    if foreign.name() != native.name() || foreign.aliases() != native.aliases() {
        violation!("name/aliases differ: {:?} {:?} vs {:?} {:?}", native.name(), native.aliases(), foreign.name(), foreign.aliases());
    }
    if foreign.signature().volatility != native.signature().volatility {
        violation!("volatility differs");
    }
    if foreign.sort_options() != native.sort_options() {
        violation!("sort_options: native {:?} foreign {:?}", native.sort_options(), foreign.sort_options());
    }

    // ---- expressions and fields
    let schema = Schema::new(vec![Field::new("a0", case.ty.dt(), true), Field::new("ord", DataType::Int64, false)]);
    let mut exprs: Vec<Arc<dyn PhysicalExpr>> = vec![];
    let mut arrays: Vec<ArrayRef> = vec![];
    if takes_value {
        exprs.push(Arc::new(Column::new("a0", 0)));
        match to_array(&case.vals, &case.ty) {
            Ok(a) => arrays.push(a),
            Err(e) => return CaseResult::discard(format!("cannot build argument: {}", truncate(&e, 50))),
        }
    }
    if let Some(k) = case.n_lit {
        if name == "ntile" || matches!(name, "lag" | "lead" | "nth_value") {
            let s = ScalarValue::Int64(Some(k));
            if let Ok(a) = s.to_array_of_size(n) {
                arrays.push(a);
            }
            exprs.push(Arc::new(Literal::new(s)));
        }
    }
    if let Some(d) = &case.default {
        let s = to_scalar(d, &case.ty);
        if let Ok(a) = s.to_array_of_size(n) {
            arrays.push(a);
        }
        exprs.push(Arc::new(Literal::new(s)));
    }
    if arrays.len() != exprs.len() {
        return CaseResult::discard("cannot expand literal");
    }
    let fields: Vec<FieldRef> = match exprs.iter().map(|e| e.return_field(&schema)).collect::<Result<Vec<_>, _>>() {
        Ok(f) => f,
        Err(e) => return CaseResult::discard(format!("field: {}", truncate(&e.to_string(), 50))),
    };
    // coercion and field
    if !fields.is_empty() {
        let a = fields_with_udf(&fields, native.as_ref()).map(|f| f.iter().map(|x| x.data_type().clone()).collect::<Vec<_>>()).map_err(|e| truncate(&e.to_string(), 200));
        let b = fields_with_udf(&fields, &foreign).map(|f| f.iter().map(|x| x.data_type().clone()).collect::<Vec<_>>()).map_err(|e| truncate(&e.to_string(), 200));
        let raw_dts: Vec<DataType> = fields.iter().map(|f| f.data_type().clone()).collect();
        match crate::coercion_agree(&a, &b, &raw_dts) {
            Ok(l) => labels.push(format!("coerce:{l}")),
            Err(e) => violation!("coercion: {e}"),
        }
    }
    match (nat!(native.field(WindowUDFFieldArgs::new(&fields, "w"))), foreign.field(WindowUDFFieldArgs::new(&fields, "w"))) {
        (Ok(a), Ok(b)) => {
            if a != b {
                violation!("field(): native {a:?} foreign {b:?}");
            }
        }
        (Err(_), Err(_)) => labels.push("field:both-reject".into()),
        (a, b) => violation!("field(): native {:?} foreign {:?}", a.map_err(|e| truncate(&e.to_string(), 200)), b.map_err(|e| truncate(&e.to_string(), 200))),
    }

    let mk = || PartitionEvaluatorArgs::new(&exprs, &fields, case.is_reversed, case.ignore_nulls);
    let ev_n = nat!(native.partition_evaluator_factory(mk()));
    let ev_u = foreign.partition_evaluator_factory(mk());
    let ev_f = forced_evaluator(&ffi, mk());
    let (mut e_n, mut e_u, mut e_f) = match (ev_n, ev_u, ev_f) {
        (Ok(a), Ok(b), Ok(c)) => (a, b, c),
        (Err(_), Err(_), Err(_)) => {
            labels.push("evaluator:all-reject".into());
            return CaseResult::pass().labels(labels);
        }
        (a, b, c) => violation!("partition_evaluator: native ok={} via-foreign-udwf ok={} forced-foreign ok={} ({:?} / {:?})", a.is_ok(), b.is_ok(), c.is_ok(), a.err().map(|e| truncate(&e.to_string(), 200)), c.err()),
    };
    let flags = |e: &dyn PartitionEvaluator| (e.is_causal(), e.supports_bounded_execution(), e.uses_window_frame(), e.include_rank());
    if flags(e_n.as_ref()) != flags(e_f.as_ref()) || flags(e_n.as_ref()) != flags(e_u.as_ref()) {
        violation!("flags (is_causal, supports_bounded_execution, uses_window_frame, include_rank): native {:?} via-foreign-udwf {:?} forced-foreign {:?}", flags(e_n.as_ref()), flags(e_u.as_ref()), flags(e_f.as_ref()));
    }
    let (_, bounded, uses_frame, include_rank) = flags(e_n.as_ref());

    // order-by values (sorted keys) and rank ranges
    let mut keys: Vec<i64> = case.keys.iter().map(|k| *k as i64).collect();
    keys.sort();
    let ord: ArrayRef = Arc::new(Int64Array::from(keys.clone()));
    let mut ranks: Vec<Range<usize>> = vec![];
    let mut start = 0;
    for i in 1..=n {
        if i == n || keys[i] != keys[start] {
            if i > start {
                ranks.push(start..i);
            }
            start = i;
        }
    }
    let mut nontrivial = false;
    let mut compared = false;

    if uses_frame {
        labels.push("mode:frame".into());
        let mut values = arrays.clone();
        values.push(Arc::clone(&ord));
        for i in 0..n {
            let a = pick_index(case.frames[i].0, n + 1);
            let b = pick_index(case.frames[i].1, n + 1);
            let range = a.min(b)..a.max(b);
            match (nat!(e_n.evaluate(&values, &range)), e_u.evaluate(&values, &range), e_f.evaluate(&values, &range)) {
                (Ok(x), Ok(y), Ok(z)) => {
                    if render_scalar(&x) != render_scalar(&y) || render_scalar(&x) != render_scalar(&z) {
                        violation!("evaluate(row {i}, range {range:?}): native {} via-foreign-udwf {} forced-foreign {}", render_scalar(&x), render_scalar(&y), render_scalar(&z));
                    }
                    compared = true;
                    if !x.is_null() {
                        nontrivial = true;
                    }
                }
                (Err(_), Err(_), Err(_)) => {
                    labels.push("evaluate:all-fail".into());
                    break;
                }
                (x, y, z) => violation!("evaluate(row {i}, range {range:?}): native {:?} via-foreign-udwf {:?} forced-foreign {:?}", x.map_err(|e| truncate(&e.to_string(), 200)), y.map_err(|e| truncate(&e.to_string(), 200)), z.map_err(|e| truncate(&e.to_string(), 200))),
            }
        }
    } else {
        let (rn, ru, rf) = if include_rank {
            labels.push("mode:rank".into());
            (nat!(e_n.evaluate_all_with_rank(n, &ranks)), e_u.evaluate_all_with_rank(n, &ranks), e_f.evaluate_all_with_rank(n, &ranks))
        } else {
            labels.push("mode:all".into());
            (nat!(e_n.evaluate_all(&arrays, n)), e_u.evaluate_all(&arrays, n), e_f.evaluate_all(&arrays, n))
        };
        match (rn, ru, rf) {
            (Ok(x), Ok(y), Ok(z)) => {
                if arr_desc(&x) != arr_desc(&y) || arr_desc(&x) != arr_desc(&z) {
                    violation!("evaluate_all: native {} via-foreign-udwf {} forced-foreign {}", arr_desc(&x), arr_desc(&y), arr_desc(&z));
                }
                compared = true;
                if x.null_count() < x.len() {
                    nontrivial = true;
                }
            }
            (Err(_), Err(_), Err(_)) => labels.push("evaluate_all:all-fail".into()),
            (x, y, z) => violation!("evaluate_all: native {:?} via-foreign-udwf {:?} forced-foreign {:?}", x.map(|a| arr_desc(&a)).map_err(|e| truncate(&e.to_string(), 200)), y.map(|a| arr_desc(&a)).map_err(|e| truncate(&e.to_string(), 200)), z.map(|a| arr_desc(&a)).map_err(|e| truncate(&e.to_string(), 200))),
        }
    }

    // ---- stateful (bounded) mode with fresh evaluators
    if bounded && !uses_frame && n > 0 {
        if let (Ok(mut s_n), Ok(mut s_f)) = (nat!(native.partition_evaluator_factory(mk())), forced_evaluator(&ffi, mk())) {
            labels.push("mode:stateful".into());
            let mut values = arrays.clone();
            if include_rank {
                values.push(Arc::clone(&ord));
            }
            for idx in 0..n {
                let range = match (nat!(s_n.get_range(idx, n)), s_f.get_range(idx, n)) {
                    (Ok(a), Ok(b)) => {
                        if a != b {
                            violation!("get_range({idx}, {n}): native {a:?} forced-foreign {b:?}");
                        }
                        a
                    }
                    (Err(_), Err(_)) => break,
                    (a, b) => violation!("get_range({idx}, {n}): native {:?} forced-foreign {:?}", a.map_err(|e| truncate(&e.to_string(), 200)), b.map_err(|e| truncate(&e.to_string(), 200))),
                };
                match (nat!(s_n.evaluate(&values, &range)), s_f.evaluate(&values, &range)) {
                    (Ok(x), Ok(y)) => {
                        if render_scalar(&x) != render_scalar(&y) {
                            violation!("stateful evaluate(row {idx}, range {range:?}): native {} forced-foreign {}", render_scalar(&x), render_scalar(&y));
                        }
                        compared = true;
                        if !x.is_null() {
                            nontrivial = true;
                        }
                    }
                    (Err(_), Err(_)) => {
                        labels.push("stateful:both-fail".into());
                        break;
                    }
                    (x, y) => violation!("stateful evaluate(row {idx}, range {range:?}): native {:?} forced-foreign {:?}", x.map_err(|e| truncate(&e.to_string(), 200)), y.map_err(|e| truncate(&e.to_string(), 200))),
                }
            }
        }
    }
    if compared {
        bump(name, 1);
    }
    if nontrivial {
        bump(name, 2);
        labels.push(format!("fn={name}"));
    }
    if case.ignore_nulls {
        labels.push("ignore-nulls".into());
    }
    CaseResult::pass().labels(labels).nontrivial(nontrivial)
}
