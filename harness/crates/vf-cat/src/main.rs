//! vf-cat — C49 (catalog histories vs a model catalog) and C40b (file caches end-to-end validity).
mod c40b;
mod c49;

fn main() {
    vf_kit::dispatch! {
        "c49" => c49::C49,
        "c40b" => c40b::C40b,
    }
}
