fn main() {
    eprintln!("no sub-commands yet");
    std::process::exit(2);
}
