//! C49 — catalog changes are applied exactly and reflected in the information schema.
//!
//! Domain: a history of ≤ 12 SQL statements executed on ONE fresh `SessionContext`
//! (`information_schema` enabled, 1 partition) over a fixed pool of object names that collide after SQL
//! identifier normalisation (`t`, `T`, `"T"`, `"a b"`, `s1.t`, `S1.T`, `"S1".t`, `c1.s1.t`, `public.t`,
//! `datafusion.public."T"`, …), schema names (`s1`, `S1`, `"S1"`, `c1.s1`, `public`, …) and catalog names
//! (`c1`, `C1`, `"c1"`, `datafusion`):
//! `CREATE [OR REPLACE] TABLE [IF NOT EXISTS] n AS VALUES …` (anonymous `columnN` columns or declared
//! `(a BIGINT, b VARCHAR, …)` columns), `CREATE … TABLE n (cols)`, `CREATE … TABLE n AS SELECT … FROM src`,
//! `CREATE [OR REPLACE] VIEW n AS SELECT */cols FROM src [WHERE c > k]`, `DROP TABLE|VIEW [IF EXISTS]`,
//! `CREATE SCHEMA|DATABASE [IF NOT EXISTS]`, `DROP SCHEMA [IF EXISTS] [CASCADE|RESTRICT]`, `INSERT INTO n VALUES`,
//! `SELECT … FROM n`, reads of `information_schema.{tables,columns,views,schemata}` (optionally through
//! `c1.information_schema`), `SHOW TABLES`, `SHOW COLUMNS FROM n`.
//!
//! Oracle: a model catalog (catalog → schema → object maps; unquoted identifiers lower-cased) decides for
//! every statement whether it must succeed or fail and what it returns:
//! * DDL: success / failure exactly as the handlers in `core/src/execution/context/mod.rs` define for the
//!   current state (existing name: plain CREATE fails, IF NOT EXISTS is a no-op, OR REPLACE replaces whatever
//!   object holds the name, both flags together fail; DROP TABLE on a view / DROP VIEW on a table fail unless
//!   IF EXISTS; objects in a missing schema/catalog cannot be created; DROP SCHEMA of a non-empty schema
//!   needs CASCADE).
//! * SELECT: column names and the multiset of rows of a tiny evaluator (projection + `c > k`) over the model
//!   data; a view is evaluated as its defining query over the CURRENT model data (INSERTs into the base table
//!   are visible through the view).
//! * information schema: exactly the model objects (`BASE TABLE` / `VIEW`), their columns with ordinal
//!   positions and Arrow type spelling (pinned on the unchanged tree: BIGINT→Int64, INT→Int32, SMALLINT→Int16,
//!   VARCHAR/TEXT→Utf8View, string literals in VALUES→Utf8, DOUBLE→Float64, REAL→Float32, BOOLEAN→Boolean),
//!   schemata, and view definitions (the statement text as re-printed by the SQL parser).
//!
//! Deviations from DESIGN.md / pinned facts:
//! * `DROP SCHEMA` is NOT `NotImplemented` on a plain `SessionContext` (that is the CLI's dynamic-file
//!   catalog wrapper); `MemoryCatalogProvider::deregister_schema` works, so it is modelled, not discarded.
//! * `information_schema.views` also lists base tables (with a NULL definition). The oracle requires: rows
//!   with a definition = exactly the model's views (with their definition text); rows without a definition
//!   must name existing objects. This is sound for both "views only" and "all tables" implementations.
//! * `SHOW COLUMNS FROM t` is rewritten by the planner to `… WHERE table_name = 't'` using only the name
//!   parts written, so it also lists same-named tables of other schemas/catalogs. The property statement does
//!   not cover SHOW COLUMNS precisely; the oracle accepts either exactly the resolved object's columns or the
//!   columns of all objects matching the written parts (noted in the report as a possible minor defect).
//! * `x.information_schema.tables` resolves even when catalog `x` does not exist (the information-schema
//!   short cut in `SessionState::schema_for_ref` runs before the catalog lookup); both outcomes accepted.
//! * Views bind their base table at CREATE VIEW time (the stored logical plan holds the provider): after
//!   the base name is dropped, re-created or replaced, the view keeps returning the OLD provider's rows. The
//!   property statement ("queries resolve names against the current state; a view returns its defining
//!   query's rows over current data") says otherwise, so the model evaluates the defining query against the
//!   current catalog: base missing → error expected; base re-created with identical columns → its rows;
//!   base re-created with different columns → ambiguous, history stops there (no verdict). Histories that
//!   read through such a re-bound view carry `known_signature = "stale-view-binding"` (see
//!   /verif/known_findings.json, /verif/regressions/C49/c49/).
//! * Nullability (`is_nullable`) is not asserted (not part of the property statement).
//!
//! Non-trivial: some object (catalog, schema, table triple) was successfully created / replaced / dropped
//! through at least two different spellings of its name (different case, quoting or qualification), at least
//! two such mutations happened, and a later read (SELECT, information schema, SHOW) was checked.
//!
//! Sensitivity probes (tools/mkpatch + tools/mutrun, quick tier, all in datafusion/core/src/execution/context/mod.rs
//! unless noted):
//!   1. `create_view`: the `(or_replace = true, exists)` arm returns without deregister/register (CREATE OR REPLACE
//!      VIEW does not replace; DESIGN probe) -> VIOLATION after 78 cases: `CREATE TABLE v (a BIGINT); CREATE OR
//!      REPLACE VIEW v AS SELECT * FROM t; SELECT * FROM v` "expected output columns [column1], got [a]".
//!   2. `find_and_deregister` without the `table_type() == table_type` test (DROP TABLE drops views, DROP VIEW drops
//!      tables; DESIGN probe) -> VIOLATION after 2 cases: `CREATE TABLE t …; DROP VIEW t` "expected failure,
//!      statement succeeded".
//!   3. `create_memory_table`: `(if_not_exists, !or_replace, exists)` replaces instead of being a no-op
//!      -> VIOLATION after 50 cases: `CREATE TABLE t AS VALUES (0); CREATE TABLE IF NOT EXISTS t AS VALUES (0),(NULL);
//!      SELECT * FROM t` "row count differs: expected 1 got 2".
//!   4. catalog/src/information_schema.rs `make_columns`: `field_position + 1` -> was a VIOLATION (2 cases) while
//!      absolute ordinals were asserted; the oracle has since been relaxed to assert only the ORDER given by
//!      ordinal_position (the tree counts from 0, the standard from 1), so this probe is no longer meaningful.
//!   Repair candidate /verif/fixes/C49-view-rebinds-current-catalog.diff (re-plans a view's defining statement
//!   against the current catalog when a SQL statement refers to the view): with it
//!   (mutrun) the regression case passes and a quick run WITHOUT the known-finding exclusion passes (2400 cases, 183
//!   non-trivial, 0 excluded). A view that can no longer be planned (base dropped / columns changed) then fails with
//!   "table not found" when used as a relation; DDL on its name keeps working.
use datafusion::prelude::{SessionConfig, SessionContext};
use proptest::prelude::*;
use serde::{Deserialize, Serialize};
use std::collections::{BTreeMap, BTreeSet};
use vf_df::refsql::{Value, multiset_diff};
use vf_kit::engine::*;

pub struct C49;

const D: &str = "datafusion";
const P: &str = "public";

/// (SQL text, catalog, schema, table)
const NAMES: &[(&str, &str, &str, &str)] = &[
    ("t", D, P, "t"),
    ("T", D, P, "t"),
    ("\"T\"", D, P, "T"),
    ("\"a b\"", D, P, "a b"),
    ("s1.t", D, "s1", "t"),
    ("c1.s1.t", "c1", "s1", "t"),
    ("public.t", D, P, "t"),
    ("datafusion.public.\"T\"", D, P, "T"),
    ("S1.T", D, "s1", "t"),
    ("v", D, P, "v"),
    ("V", D, P, "v"),
    ("s1.\"a b\"", D, "s1", "a b"),
    ("C1.S1.\"T\"", "c1", "s1", "T"),
    ("\"S1\".t", D, "S1", "t"),
    ("datafusion.s1.t", D, "s1", "t"),
];

/// (SQL text, catalog, schema)
const SCHEMAS: &[(&str, &str, &str)] = &[
    ("s1", D, "s1"),
    ("S1", D, "s1"),
    ("\"S1\"", D, "S1"),
    ("c1.s1", "c1", "s1"),
    ("datafusion.s1", D, "s1"),
    ("public", D, P),
    ("C1.S1", "c1", "s1"),
];

/// (SQL text, catalog)
const DBS: &[(&str, &str)] = &[("c1", "c1"), ("C1", "c1"), ("\"c1\"", "c1"), ("datafusion", D)];

#[derive(Clone, Copy, Debug, PartialEq, Eq, PartialOrd, Ord)]
enum Ty {
    I64,
    I32,
    I16,
    Utf8View,
    Utf8,
    F64,
    F32,
    Bool,
}

#[derive(Clone, Copy, PartialEq, Eq)]
enum Kind {
    Int,
    Str,
    Float,
    Bool,
}

impl Ty {
    fn arrow_name(self) -> &'static str {
        match self {
            Ty::I64 => "Int64",
            Ty::I32 => "Int32",
            Ty::I16 => "Int16",
            Ty::Utf8View => "Utf8View",
            Ty::Utf8 => "Utf8",
            Ty::F64 => "Float64",
            Ty::F32 => "Float32",
            Ty::Bool => "Boolean",
        }
    }
    fn kind(self) -> Kind {
        match self {
            Ty::I64 | Ty::I32 | Ty::I16 => Kind::Int,
            Ty::Utf8View | Ty::Utf8 => Kind::Str,
            Ty::F64 | Ty::F32 => Kind::Float,
            Ty::Bool => Kind::Bool,
        }
    }
}

/// declared SQL column types and the Arrow type they map to (pinned)
const SQL_TYPES: &[(&str, Ty)] = &[
    ("BIGINT", Ty::I64),
    ("VARCHAR", Ty::Utf8View),
    ("INT", Ty::I32),
    ("DOUBLE", Ty::F64),
    ("BOOLEAN", Ty::Bool),
    ("SMALLINT", Ty::I16),
    ("REAL", Ty::F32),
    ("TEXT", Ty::Utf8View),
];
/// types of anonymous VALUES columns by literal kind
const VALUE_TYPES: &[Ty] = &[Ty::I64, Ty::Utf8, Ty::F64, Ty::Bool];
const COL_NAMES: &[&str] = &["a", "b", "c"];

fn value_of(kind: Kind, n: i8) -> Value {
    match kind {
        Kind::Int => Value::Int(n as i64),
        Kind::Str => Value::Str(format!("s{n}")),
        Kind::Float => Value::Float(n as f64 * 0.5),
        Kind::Bool => Value::Bool(n % 2 == 0),
    }
}

fn literal_of(kind: Kind, n: Option<i8>) -> String {
    match n {
        None => "NULL".into(),
        Some(n) => match kind {
            Kind::Int => format!("{n}"),
            Kind::Str => format!("'s{n}'"),
            Kind::Float => format!("{:?}", n as f64 * 0.5),
            Kind::Bool => format!("{}", n % 2 == 0),
        },
    }
}

// ---------------------------------------------------------------------------------------------
// case

#[derive(Clone, Debug, Serialize, Deserialize)]
pub struct Q {
    /// None = `*`; otherwise column picks (reduced modulo the source's column count, de-duplicated)
    pub cols: Option<Vec<u8>>,
    /// `WHERE <first integer column> > k`
    pub filter: Option<i8>,
}

/// A name reference. `existing = false`: `pick` indexes the name pool. `existing = true`: the `pick`-th object
/// currently in the model catalog (clamped), written with the `spell`-th pool spelling that resolves to it;
/// falls back to the pool when the catalog is empty.
#[derive(Clone, Copy, Debug, Serialize, Deserialize)]
pub struct NameSel {
    pub existing: bool,
    pub pick: u8,
    pub spell: u8,
}

#[derive(Clone, Debug, Serialize, Deserialize)]
pub enum Stmt {
    CreateSchema { schema: u8, if_not_exists: bool },
    CreateDatabase { db: u8, if_not_exists: bool },
    /// mode: 0 = none, 1 = CASCADE, 2 = RESTRICT
    DropSchema { schema: u8, if_exists: bool, mode: u8 },
    /// `tys` index VALUE_TYPES (anonymous) or SQL_TYPES (declared = true)
    CreateTableValues { name: NameSel, or_replace: bool, if_not_exists: bool, declared: bool, tys: Vec<u8>, rows: Vec<Vec<Option<i8>>> },
    CreateTableCols { name: NameSel, or_replace: bool, if_not_exists: bool, tys: Vec<u8> },
    CreateTableAs { name: NameSel, or_replace: bool, if_not_exists: bool, src: NameSel, q: Q },
    CreateView { name: NameSel, or_replace: bool, src: NameSel, q: Q },
    Drop { view: bool, if_exists: bool, name: NameSel },
    Insert { name: NameSel, rows: Vec<Vec<i8>> },
    Select { name: NameSel, q: Q },
    /// what: 0 tables, 1 columns, 2 views, 3 schemata, 4 SHOW TABLES; via_c1: read through `c1.information_schema`
    Info { what: u8, via_c1: bool },
    ShowColumns { name: NameSel },
}

#[derive(Clone, Debug, Serialize, Deserialize)]
pub struct Case {
    pub stmts: Vec<Stmt>,
}

// ---------------------------------------------------------------------------------------------
// model

type Ref3 = (String, String, String);
type Cols = Vec<(String, Ty)>;

#[derive(Clone, Debug)]
struct Rel {
    cols: Cols,
    rows: Vec<Vec<Value>>,
}

/// a query resolved against the columns of its source
#[derive(Clone, Debug)]
struct RQ {
    proj: Vec<usize>,
    filter: Option<(usize, i64)>,
}

#[derive(Clone, Debug)]
enum ObjKind {
    Table { rows: Vec<Vec<Value>> },
    View { base: Ref3, base_inc: u64, base_cols: Cols, q: RQ, definition: String },
}

#[derive(Clone, Debug)]
struct Obj {
    inc: u64,
    cols: Cols,
    kind: ObjKind,
}

enum Ev {
    Missing,
    Ambiguous,
}

#[derive(Debug)]
enum Exp {
    /// statement must succeed (result rows irrelevant)
    Ok,
    Fail,
    Rows { names: Option<Vec<String>>, rows: Vec<Vec<Value>> },
    /// `alt` = second acceptable row set
    RowsEither { a: Vec<Vec<Value>>, b: Vec<Vec<Value>> },
    /// views: exact set of rows with a definition; other rows must be a subset of `others`
    Views { defined: Vec<Vec<Value>>, others: BTreeSet<(String, String, String)> },
    /// success with the given rows, or failure
    RowsOrFail(Box<Exp>),
    Count(i64),
    /// no verdict possible and the model cannot continue
    Stop,
}

struct Step {
    sql: String,
    exp: Exp,
    labels: Vec<&'static str>,
    stale: bool,
    is_read: bool,
    /// (object key, spelling) successfully mutated by this statement if it succeeds as expected
    mutated: Option<(String, String)>,
}

#[derive(Default)]
struct Model {
    catalogs: BTreeMap<String, BTreeMap<String, BTreeMap<String, Obj>>>,
    next_inc: u64,
}

impl Model {
    fn new() -> Self {
        let mut m = Model::default();
        let mut schemas = BTreeMap::new();
        schemas.insert(P.to_string(), BTreeMap::new());
        m.catalogs.insert(D.to_string(), schemas);
        m
    }
    fn schema(&self, c: &str, s: &str) -> Option<&BTreeMap<String, Obj>> {
        self.catalogs.get(c).and_then(|x| x.get(s))
    }
    fn schema_mut(&mut self, c: &str, s: &str) -> Option<&mut BTreeMap<String, Obj>> {
        self.catalogs.get_mut(c).and_then(|x| x.get_mut(s))
    }
    fn get(&self, r: &Ref3) -> Option<&Obj> {
        self.schema(&r.0, &r.1).and_then(|s| s.get(&r.2))
    }
    fn inc(&mut self) -> u64 {
        self.next_inc += 1;
        self.next_inc
    }

    fn read(&self, r: &Ref3, depth: usize, stale: &mut bool) -> Result<Rel, Ev> {
        if depth > 8 {
            *stale = true;
            return Err(Ev::Ambiguous);
        }
        let obj = self.get(r).ok_or(Ev::Missing)?;
        match &obj.kind {
            ObjKind::Table { rows } => Ok(Rel { cols: obj.cols.clone(), rows: rows.clone() }),
            ObjKind::View { base, base_inc, base_cols, q, .. } => match self.get(base) {
                None => {
                    *stale = true;
                    Err(Ev::Missing)
                }
                Some(b) => {
                    if b.inc != *base_inc {
                        *stale = true;
                        if b.cols != *base_cols {
                            return Err(Ev::Ambiguous);
                        }
                    }
                    let rel = self.read(base, depth + 1, stale)?;
                    Ok(apply(q, &rel))
                }
            },
        }
    }

    /// pool index denoted by a name selector in the current state
    fn sel(&self, n: &NameSel) -> u8 {
        if n.existing {
            let objs = self.all_objects();
            if !objs.is_empty() {
                let r = &objs[(n.pick as usize).min(objs.len() - 1)].0;
                let spellings: Vec<usize> = (0..NAMES.len()).filter(|&i| name_of(i as u8).1 == *r).collect();
                if !spellings.is_empty() {
                    return spellings[(n.spell as usize).min(spellings.len() - 1)] as u8;
                }
            }
        }
        (n.pick as usize).min(NAMES.len() - 1) as u8
    }

    fn all_objects(&self) -> Vec<(Ref3, &Obj)> {
        let mut v = vec![];
        for (c, ss) in &self.catalogs {
            for (s, os) in ss {
                for (n, o) in os {
                    v.push(((c.clone(), s.clone(), n.clone()), o));
                }
            }
        }
        v
    }
}

fn apply(q: &RQ, rel: &Rel) -> Rel {
    let rows: Vec<Vec<Value>> = rel
        .rows
        .iter()
        .filter(|r| match q.filter {
            None => true,
            Some((c, k)) => matches!(r.get(c), Some(Value::Int(v)) if *v > k),
        })
        .map(|r| q.proj.iter().map(|&i| r[i].clone()).collect())
        .collect();
    Rel { cols: q.proj.iter().map(|&i| rel.cols[i].clone()).collect(), rows }
}

fn resolve_q(q: &Q, cols: &Cols) -> RQ {
    let n = cols.len().max(1);
    let proj: Vec<usize> = match &q.cols {
        None => (0..cols.len()).collect(),
        Some(picks) => {
            let mut seen = vec![];
            for p in picks {
                let i = (*p as usize) % n;
                if !seen.contains(&i) {
                    seen.push(i);
                }
            }
            if seen.is_empty() { (0..cols.len()).collect() } else { seen }
        }
    };
    let filter = q.filter.and_then(|k| cols.iter().position(|(_, t)| t.kind() == Kind::Int).map(|c| (c, k as i64)));
    RQ { proj, filter }
}

fn q_sql(q: &Q, rq: Option<(&RQ, &Cols)>, src_text: &str) -> String {
    match rq {
        None => format!("SELECT * FROM {src_text}"),
        Some((rq, cols)) => {
            let list = if q.cols.is_none() { "*".to_string() } else { rq.proj.iter().map(|&i| cols[i].0.clone()).collect::<Vec<_>>().join(", ") };
            let mut s = format!("SELECT {list} FROM {src_text}");
            if let Some((c, k)) = rq.filter {
                s.push_str(&format!(" WHERE {} > {k}", cols[c].0));
            }
            s
        }
    }
}

fn name_of(i: u8) -> (&'static str, Ref3) {
    let (t, c, s, n) = NAMES[(i as usize).min(NAMES.len() - 1)];
    (t, (c.to_string(), s.to_string(), n.to_string()))
}

fn key3(r: &Ref3) -> String {
    format!("{}\u{1}{}\u{1}{}", r.0, r.1, r.2)
}

fn create_prefix(or_replace: bool) -> &'static str {
    if or_replace { "CREATE OR REPLACE" } else { "CREATE" }
}

impl Model {
    /// outcome class of a CREATE TABLE / CREATE VIEW on `target` given the flags; performs the model update
    /// when `new` is registered. Returns the expectation.
    fn create_object(&mut self, target: &Ref3, or_replace: bool, if_not_exists: bool, is_view: bool, make: impl FnOnce(u64) -> Obj) -> (Exp, bool) {
        let exists = self.get(target).is_some();
        let schema_exists = self.schema(&target.0, &target.1).is_some();
        match (if_not_exists, or_replace, exists) {
            (true, false, true) if !is_view => (Exp::Ok, false),
            (true, true, true) => (Exp::Fail, false),
            (false, false, true) => (Exp::Fail, false),
            (_, true, true) | (_, _, false) => {
                if !schema_exists {
                    return (Exp::Fail, false);
                }
                let inc = self.inc();
                let obj = make(inc);
                self.schema_mut(&target.0, &target.1).unwrap().insert(target.2.clone(), obj);
                (Exp::Ok, true)
            }
            (true, false, true) => (Exp::Fail, false),
        }
    }

    fn info_tables(&self) -> Vec<Vec<Value>> {
        self.all_objects()
            .into_iter()
            .map(|(r, o)| {
                let ty = if matches!(o.kind, ObjKind::View { .. }) { "VIEW" } else { "BASE TABLE" };
                vec![Value::Str(r.0), Value::Str(r.1), Value::Str(r.2), Value::Str(ty.into())]
            })
            .collect()
    }

    fn column_rows(r: &Ref3, o: &Obj, with_ordinal: bool) -> Vec<Vec<Value>> {
        o.cols
            .iter()
            .enumerate()
            .map(|(i, (n, t))| {
                let mut row = vec![Value::Str(r.0.clone()), Value::Str(r.1.clone()), Value::Str(r.2.clone()), Value::Str(n.clone())];
                if with_ordinal {
                    row.push(Value::Int(i as i64));
                }
                row.push(Value::Str(t.arrow_name().into()));
                row
            })
            .collect()
    }

    fn step(&mut self, st: &Stmt) -> Step {
        let mut step = Step { sql: String::new(), exp: Exp::Ok, labels: vec![], stale: false, is_read: false, mutated: None };
        match st {
            Stmt::CreateSchema { schema, if_not_exists } => {
                let (text, c, s) = SCHEMAS[(*schema as usize).min(SCHEMAS.len() - 1)];
                step.sql = format!("CREATE SCHEMA {}{text}", if *if_not_exists { "IF NOT EXISTS " } else { "" });
                step.labels.push("create-schema");
                match self.catalogs.get_mut(c) {
                    None => step.exp = Exp::Fail,
                    Some(cat) => {
                        if cat.contains_key(s) {
                            step.exp = if *if_not_exists { Exp::Ok } else { Exp::Fail };
                        } else {
                            cat.insert(s.to_string(), BTreeMap::new());
                            step.mutated = Some((format!("schema\u{1}{c}\u{1}{s}"), text.to_string()));
                        }
                    }
                }
            }
            Stmt::CreateDatabase { db, if_not_exists } => {
                let (text, c) = DBS[(*db as usize).min(DBS.len() - 1)];
                step.sql = format!("CREATE DATABASE {}{text}", if *if_not_exists { "IF NOT EXISTS " } else { "" });
                step.labels.push("create-database");
                if self.catalogs.contains_key(c) {
                    step.exp = if *if_not_exists { Exp::Ok } else { Exp::Fail };
                } else {
                    self.catalogs.insert(c.to_string(), BTreeMap::new());
                    step.mutated = Some((format!("catalog\u{1}{c}"), text.to_string()));
                }
            }
            Stmt::DropSchema { schema, if_exists, mode } => {
                let (text, c, s) = SCHEMAS[(*schema as usize).min(SCHEMAS.len() - 1)];
                let suffix = match mode {
                    1 => " CASCADE",
                    2 => " RESTRICT",
                    _ => "",
                };
                step.sql = format!("DROP SCHEMA {}{text}{suffix}", if *if_exists { "IF EXISTS " } else { "" });
                step.labels.push("drop-schema");
                let cascade = *mode == 1;
                match self.catalogs.get_mut(c) {
                    None => step.exp = if *if_exists { Exp::Ok } else { Exp::Fail },
                    Some(cat) => match cat.get(s) {
                        None => step.exp = if *if_exists { Exp::Ok } else { Exp::Fail },
                        Some(objs) => {
                            if objs.is_empty() || cascade {
                                if !objs.is_empty() {
                                    step.labels.push("drop-schema-cascade-nonempty");
                                }
                                cat.remove(s);
                                step.mutated = Some((format!("schema\u{1}{c}\u{1}{s}"), text.to_string()));
                            } else {
                                step.labels.push("drop-schema-restrict-nonempty");
                                step.exp = Exp::Fail;
                            }
                        }
                    },
                }
            }
            Stmt::CreateTableValues { name, or_replace, if_not_exists, declared, tys, rows } => {
                let (text, target) = name_of(self.sel(name));
                let ncols = tys.len().clamp(1, 3);
                let pool_len = if *declared { SQL_TYPES.len() } else { VALUE_TYPES.len() };
                let col_tys: Vec<Ty> = (0..ncols).map(|i| { let k = (tys.get(i).copied().unwrap_or(0) as usize).min(pool_len - 1); if *declared { SQL_TYPES[k].1 } else { VALUE_TYPES[k] } }).collect();
                let cols: Cols = (0..ncols).map(|i| (if *declared { COL_NAMES[i].to_string() } else { format!("column{}", i + 1) }, col_tys[i])).collect();
                // normalise the value matrix: ≥ 1 row, every row ncols wide, no all-NULL column
                let mut m: Vec<Vec<Option<i8>>> = rows.iter().take(4).map(|r| (0..ncols).map(|i| r.get(i).copied().flatten()).collect()).collect();
                if m.is_empty() {
                    m.push(vec![Some(0); ncols]);
                }
                for c in 0..ncols {
                    if m.iter().all(|r| r[c].is_none()) {
                        m[0][c] = Some(0);
                    }
                }
                let vals: Vec<Vec<Value>> = m.iter().map(|r| r.iter().enumerate().map(|(i, v)| v.map(|n| value_of(col_tys[i].kind(), n)).unwrap_or(Value::Null)).collect()).collect();
                let tuples: Vec<String> = m.iter().map(|r| format!("({})", r.iter().enumerate().map(|(i, v)| literal_of(col_tys[i].kind(), *v)).collect::<Vec<_>>().join(", "))).collect();
                let decl = if *declared {
                    let k: Vec<String> = (0..ncols).map(|i| { let k = (tys.get(i).copied().unwrap_or(0) as usize).min(pool_len - 1); format!("{} {}", COL_NAMES[i], SQL_TYPES[k].0) }).collect();
                    format!(" ({})", k.join(", "))
                } else {
                    String::new()
                };
                step.sql = format!("{} TABLE {}{text}{decl} AS VALUES {}", create_prefix(*or_replace), if *if_not_exists { "IF NOT EXISTS " } else { "" }, tuples.join(", "));
                step.labels.push("create-table-values");
                let existed = self.get(&target).is_some();
                let (exp, done) = self.create_object(&target, *or_replace, *if_not_exists, false, |inc| Obj { inc, cols, kind: ObjKind::Table { rows: vals } });
                self.note_create(&mut step, exp, done, existed, text, &target);
            }
            Stmt::CreateTableCols { name, or_replace, if_not_exists, tys } => {
                let (text, target) = name_of(self.sel(name));
                let ncols = tys.len().clamp(1, 3);
                let ks: Vec<usize> = (0..ncols).map(|i| (tys.get(i).copied().unwrap_or(0) as usize).min(SQL_TYPES.len() - 1)).collect();
                let cols: Cols = ks.iter().enumerate().map(|(i, &k)| (COL_NAMES[i].to_string(), SQL_TYPES[k].1)).collect();
                let decl: Vec<String> = ks.iter().enumerate().map(|(i, &k)| format!("{} {}", COL_NAMES[i], SQL_TYPES[k].0)).collect();
                step.sql = format!("{} TABLE {}{text} ({})", create_prefix(*or_replace), if *if_not_exists { "IF NOT EXISTS " } else { "" }, decl.join(", "));
                step.labels.push("create-table-cols");
                let existed = self.get(&target).is_some();
                let (exp, done) = self.create_object(&target, *or_replace, *if_not_exists, false, |inc| Obj { inc, cols, kind: ObjKind::Table { rows: vec![] } });
                self.note_create(&mut step, exp, done, existed, text, &target);
            }
            Stmt::CreateTableAs { name, or_replace, if_not_exists, src, q } => {
                let (text, target) = name_of(self.sel(name));
                let (src_text, src_ref) = name_of(self.sel(src));
                step.labels.push("create-table-as-select");
                let head = format!("{} TABLE {}{text} AS ", create_prefix(*or_replace), if *if_not_exists { "IF NOT EXISTS " } else { "" });
                let mut stale = false;
                match self.read(&src_ref, 0, &mut stale) {
                    Err(Ev::Missing) => {
                        step.sql = format!("{head}{}", q_sql(q, None, src_text));
                        step.exp = Exp::Fail;
                        step.stale = stale;
                    }
                    Err(Ev::Ambiguous) => {
                        step.sql = format!("{head}{}", q_sql(q, None, src_text));
                        step.exp = Exp::Stop;
                        step.stale = true;
                    }
                    Ok(rel) => {
                        step.stale = stale;
                        let rq = resolve_q(q, &rel.cols);
                        step.sql = format!("{head}{}", q_sql(q, Some((&rq, &rel.cols)), src_text));
                        let out = apply(&rq, &rel);
                        if matches!(self.get(&src_ref).map(|o| &o.kind), Some(ObjKind::View { .. })) {
                            step.labels.push("ctas-from-view");
                        }
                        let existed = self.get(&target).is_some();
                        let (exp, done) = self.create_object(&target, *or_replace, *if_not_exists, false, |inc| Obj { inc, cols: out.cols, kind: ObjKind::Table { rows: out.rows } });
                        self.note_create(&mut step, exp, done, existed, text, &target);
                    }
                }
            }
            Stmt::CreateView { name, or_replace, src, q } => {
                let (text, target) = name_of(self.sel(name));
                // a view over its own name would be self-referential under "current state" semantics: pick the next
                // pool name that resolves elsewhere
                let mut si = self.sel(src) as usize;
                while name_of(si as u8).1 == target {
                    si = (si + 1) % NAMES.len();
                }
                let (src_text, src_ref) = name_of(si as u8);
                step.labels.push("create-view");
                let head = format!("{} VIEW {text} AS ", create_prefix(*or_replace));
                let mut stale = false;
                match self.read(&src_ref, 0, &mut stale) {
                    Err(Ev::Missing) => {
                        step.sql = format!("{head}{}", q_sql(q, None, src_text));
                        // planning the defining query fails when the source (or, under current-state semantics, the
                        // base of a source view) is missing
                        step.exp = if stale { Exp::Stop } else { Exp::Fail };
                        step.stale = stale;
                    }
                    Err(Ev::Ambiguous) => {
                        step.sql = format!("{head}{}", q_sql(q, None, src_text));
                        step.exp = Exp::Stop;
                        step.stale = true;
                    }
                    Ok(rel) => {
                        // creating a view does not read data: staleness of the source only matters when reading
                        let src_obj = self.get(&src_ref).unwrap();
                        let src_cols = src_obj.cols.clone();
                        let src_inc = src_obj.inc;
                        if matches!(src_obj.kind, ObjKind::View { .. }) {
                            step.labels.push("view-on-view");
                        }
                        // the view's own schema is that of the source object as registered (not of a re-bound base)
                        let _ = rel;
                        let rq = resolve_q(q, &src_cols);
                        let body = q_sql(q, Some((&rq, &src_cols)), src_text);
                        step.sql = format!("{head}{body}");
                        let definition = step.sql.clone();
                        let out_cols: Cols = rq.proj.iter().map(|&i| src_cols[i].clone()).collect();
                        let existed = self.get(&target).is_some();
                        let (exp, done) = self.create_object(&target, *or_replace, false, true, |inc| Obj {
                            inc,
                            cols: out_cols,
                            kind: ObjKind::View { base: src_ref.clone(), base_inc: src_inc, base_cols: src_cols.clone(), q: rq, definition },
                        });
                        self.note_create(&mut step, exp, done, existed, text, &target);
                    }
                }
            }
            Stmt::Drop { view, if_exists, name } => {
                let (text, target) = name_of(self.sel(name));
                step.sql = format!("DROP {} {}{text}", if *view { "VIEW" } else { "TABLE" }, if *if_exists { "IF EXISTS " } else { "" });
                step.labels.push(if *view { "drop-view" } else { "drop-table" });
                let matches_kind = self.get(&target).map(|o| matches!(o.kind, ObjKind::View { .. }) == *view);
                match matches_kind {
                    Some(true) => {
                        self.schema_mut(&target.0, &target.1).unwrap().remove(&target.2);
                        step.mutated = Some((key3(&target), text.to_string()));
                        step.labels.push("dropped");
                    }
                    Some(false) => {
                        step.labels.push("drop-wrong-kind");
                        step.exp = if *if_exists { Exp::Ok } else { Exp::Fail };
                    }
                    None => step.exp = if *if_exists { Exp::Ok } else { Exp::Fail },
                }
            }
            Stmt::Insert { name, rows } => {
                let (text, target) = name_of(self.sel(name));
                step.labels.push("insert");
                match self.get(&target).map(|o| (o.cols.clone(), matches!(o.kind, ObjKind::Table { .. }))) {
                    None => {
                        step.sql = format!("INSERT INTO {text} VALUES (0)");
                        step.exp = Exp::Fail;
                    }
                    Some((cols, is_table)) => {
                        let m: Vec<Vec<i8>> = if rows.is_empty() { vec![vec![0; cols.len()]] } else { rows.iter().take(3).map(|r| (0..cols.len()).map(|i| r.get(i).copied().unwrap_or(0)).collect()).collect() };
                        let tuples: Vec<String> = m.iter().map(|r| format!("({})", r.iter().enumerate().map(|(i, n)| literal_of(cols[i].1.kind(), Some(*n))).collect::<Vec<_>>().join(", "))).collect();
                        step.sql = format!("INSERT INTO {text} VALUES {}", tuples.join(", "));
                        if !is_table {
                            step.labels.push("insert-into-view");
                            step.exp = Exp::Fail;
                        } else {
                            let vals: Vec<Vec<Value>> = m.iter().map(|r| r.iter().enumerate().map(|(i, n)| value_of(cols[i].1.kind(), *n)).collect()).collect();
                            step.exp = Exp::Count(vals.len() as i64);
                            if let Some(Obj { kind: ObjKind::Table { rows }, .. }) = self.schema_mut(&target.0, &target.1).and_then(|s| s.get_mut(&target.2)) {
                                rows.extend(vals);
                            }
                            step.mutated = None;
                        }
                    }
                }
            }
            Stmt::Select { name, q } => {
                let (text, target) = name_of(self.sel(name));
                step.labels.push("select");
                step.is_read = true;
                let mut stale = false;
                match self.read(&target, 0, &mut stale) {
                    Err(Ev::Missing) => {
                        step.sql = q_sql(q, None, text);
                        step.exp = Exp::Fail;
                        step.labels.push("select-missing");
                    }
                    Err(Ev::Ambiguous) => {
                        step.sql = q_sql(q, None, text);
                        step.exp = Exp::Stop;
                    }
                    Ok(rel) => {
                        let rq = resolve_q(q, &rel.cols);
                        step.sql = q_sql(q, Some((&rq, &rel.cols)), text);
                        let out = apply(&rq, &rel);
                        if matches!(self.get(&target).map(|o| &o.kind), Some(ObjKind::View { .. })) {
                            step.labels.push("select-through-view");
                        }
                        step.exp = Exp::Rows { names: Some(out.cols.iter().map(|c| c.0.clone()).collect()), rows: out.rows };
                    }
                }
                step.stale = stale;
            }
            Stmt::Info { what, via_c1 } => {
                step.is_read = true;
                let prefix = if *via_c1 { "c1." } else { "" };
                let exp = match what {
                    0 => {
                        step.labels.push("info-tables");
                        step.sql = format!("SELECT table_catalog, table_schema, table_name, table_type FROM {prefix}information_schema.tables");
                        Exp::Rows { names: None, rows: self.info_tables() }
                    }
                    1 => {
                        step.labels.push("info-columns");
                        step.sql = format!("SELECT table_catalog, table_schema, table_name, column_name, ordinal_position, data_type FROM {prefix}information_schema.columns");
                        Exp::Rows { names: None, rows: self.all_objects().iter().flat_map(|(r, o)| Model::column_rows(r, o, true)).collect() }
                    }
                    2 => {
                        step.labels.push("info-views");
                        step.sql = format!("SELECT table_catalog, table_schema, table_name, definition FROM {prefix}information_schema.views");
                        let mut defined = vec![];
                        let mut others = BTreeSet::new();
                        for (r, o) in self.all_objects() {
                            match &o.kind {
                                ObjKind::View { definition, .. } => defined.push(vec![Value::Str(r.0), Value::Str(r.1), Value::Str(r.2), Value::Str(definition.clone())]),
                                ObjKind::Table { .. } => {
                                    others.insert(r);
                                }
                            }
                        }
                        Exp::Views { defined, others }
                    }
                    3 => {
                        step.labels.push("info-schemata");
                        step.sql = format!("SELECT catalog_name, schema_name FROM {prefix}information_schema.schemata");
                        let rows = self.catalogs.iter().flat_map(|(c, ss)| ss.keys().map(move |s| vec![Value::Str(c.clone()), Value::Str(s.clone())])).collect();
                        Exp::Rows { names: None, rows }
                    }
                    _ => {
                        step.labels.push("show-tables");
                        step.sql = "SHOW TABLES".to_string();
                        Exp::Rows { names: None, rows: self.info_tables() }
                    }
                };
                let through_c1 = *via_c1 && *what <= 3;
                step.exp = if through_c1 && !self.catalogs.contains_key("c1") {
                    step.labels.push("info-via-missing-catalog");
                    Exp::RowsOrFail(Box::new(exp))
                } else {
                    if through_c1 {
                        step.labels.push("info-via-c1");
                    }
                    exp
                };
            }
            Stmt::ShowColumns { name } => {
                let idx = self.sel(name) as usize;
                let (text, target) = name_of(idx as u8);
                step.is_read = true;
                step.sql = format!("SHOW COLUMNS FROM {text}");
                step.labels.push("show-columns");
                match self.get(&target) {
                    None => step.exp = Exp::Fail,
                    Some(o) => {
                        let exact = Model::column_rows(&target, o, false);
                        // number of name parts written
                        let parts = NAMES[idx].0.split('.').count();
                        let mut wide = vec![];
                        for (r, o2) in self.all_objects() {
                            let m = r.2 == target.2 && (parts < 2 || r.1 == target.1) && (parts < 3 || r.0 == target.0);
                            if m {
                                wide.extend(Model::column_rows(&r, o2, false));
                            }
                        }
                        if wide.len() != exact.len() {
                            step.labels.push("show-columns-ambiguous-name");
                        }
                        step.exp = Exp::RowsEither { a: exact, b: wide };
                        // a view whose base name was re-bound may be rejected as no longer valid (not a data read,
                        // so not part of the stale-view signature)
                        let mut stale = false;
                        let _ = self.read(&target, 0, &mut stale);
                        if stale {
                            step.labels.push("show-columns-of-rebound-view");
                            step.exp = Exp::RowsOrFail(Box::new(std::mem::replace(&mut step.exp, Exp::Ok)));
                        }
                    }
                }
            }
        }
        step
    }

    fn note_create(&mut self, step: &mut Step, exp: Exp, done: bool, existed: bool, text: &str, target: &Ref3) {
        if done {
            step.mutated = Some((key3(target), text.to_string()));
            step.labels.push(if existed { "replaced" } else { "created" });
        } else if matches!(exp, Exp::Ok) {
            step.labels.push("if-not-exists-noop");
        } else if existed {
            step.labels.push("create-existing-fails");
        } else {
            step.labels.push("create-in-missing-schema-fails");
        }
        // a later stale flag set by reading the source is kept
        step.exp = exp;
    }
}

/// pure simulation: does the history read through a view whose base name was dropped / re-created / replaced?
fn history_reads_rebound_view(case: &Case) -> bool {
    let mut m = Model::new();
    for st in case.stmts.iter().take(MAX_STMTS) {
        let step = m.step(st);
        if step.stale {
            return true;
        }
        if matches!(step.exp, Exp::Stop) {
            return step.stale;
        }
    }
    false
}

const MAX_STMTS: usize = 12;

// ---------------------------------------------------------------------------------------------
// strategy

/// `p_existing`: probability of referring to an object that exists at that point of the history
fn name_sel(p_existing: f64) -> BoxedStrategy<NameSel> {
    let pool = prop_oneof![5 => 0u8..4, 2 => Just(4u8), 2 => Just(5u8), 4 => 6u8..(NAMES.len() as u8)];
    (prop::bool::weighted(p_existing), pool, 0u8..6, 0u8..4).prop_map(|(existing, pick, nth, spell)| NameSel { existing, pick: if existing { nth } else { pick }, spell }).boxed()
}

fn q_strategy() -> BoxedStrategy<Q> {
    (prop::option::weighted(0.5, prop::collection::vec(0u8..3, 1..3)), prop::option::weighted(0.4, -3i8..4)).prop_map(|(cols, filter)| Q { cols, filter }).boxed()
}

fn stmt_strategy() -> BoxedStrategy<Stmt> {
    let flags = || (prop::bool::weighted(0.35), prop::bool::weighted(0.2));
    let values = (name_sel(0.3), flags(), prop::bool::weighted(0.5), prop::collection::vec(0u8..8, 1..4), prop::collection::vec(prop::collection::vec(prop::option::weighted(0.85, -4i8..6), 3), 1..4))
        .prop_map(|(name, (or_replace, if_not_exists), declared, tys, rows)| Stmt::CreateTableValues { name, or_replace, if_not_exists, declared, tys, rows });
    let cols = (name_sel(0.3), flags(), prop::collection::vec(0u8..8, 1..4)).prop_map(|(name, (or_replace, if_not_exists), tys)| Stmt::CreateTableCols { name, or_replace, if_not_exists, tys });
    let ctas = (name_sel(0.3), flags(), name_sel(0.85), q_strategy()).prop_map(|(name, (or_replace, if_not_exists), src, q)| Stmt::CreateTableAs { name, or_replace, if_not_exists, src, q });
    let view = (name_sel(0.3), prop::bool::weighted(0.4), name_sel(0.85), q_strategy()).prop_map(|(name, or_replace, src, q)| Stmt::CreateView { name, or_replace, src, q });
    let drop = (any::<bool>(), prop::bool::weighted(0.3), name_sel(0.7)).prop_map(|(view, if_exists, name)| Stmt::Drop { view, if_exists, name });
    let cschema = (0u8..(SCHEMAS.len() as u8), prop::bool::weighted(0.3)).prop_map(|(schema, if_not_exists)| Stmt::CreateSchema { schema, if_not_exists });
    let cdb = (0u8..(DBS.len() as u8), prop::bool::weighted(0.3)).prop_map(|(db, if_not_exists)| Stmt::CreateDatabase { db, if_not_exists });
    let dschema = (0u8..(SCHEMAS.len() as u8), prop::bool::weighted(0.3), 0u8..3).prop_map(|(schema, if_exists, mode)| Stmt::DropSchema { schema, if_exists, mode });
    let insert = (name_sel(0.85), prop::collection::vec(prop::collection::vec(-4i8..6, 3), 1..3)).prop_map(|(name, rows)| Stmt::Insert { name, rows });
    let select = (name_sel(0.85), q_strategy()).prop_map(|(name, q)| Stmt::Select { name, q });
    let info = (0u8..5, prop::bool::weighted(0.2)).prop_map(|(what, via_c1)| Stmt::Info { what, via_c1 });
    let showc = name_sel(0.8).prop_map(|name| Stmt::ShowColumns { name });
    prop_oneof![
        6 => values,
        3 => cols,
        4 => ctas,
        8 => view,
        6 => drop,
        2 => cschema,
        1 => cdb,
        1 => dschema,
        5 => insert,
        10 => select,
        6 => info,
        2 => showc,
    ]
    .boxed()
}

fn seed_create_strategy() -> BoxedStrategy<Stmt> {
    // a plain CREATE TABLE on a default-schema name (so that later statements have something to refer to)
    let name = prop::sample::select(vec![0u8, 1, 2, 3, 6, 7, 9, 4, 5]).prop_map(|pick| NameSel { existing: false, pick, spell: 0 });
    (name, prop::bool::weighted(0.5), prop::collection::vec(0u8..8, 1..4), prop::collection::vec(prop::collection::vec(prop::option::weighted(0.85, -4i8..6), 3), 1..4))
        .prop_map(|(name, declared, tys, rows)| Stmt::CreateTableValues { name, or_replace: false, if_not_exists: false, declared, tys, rows })
        .boxed()
}

fn case_strategy(_tier: Tier) -> BoxedStrategy<Case> {
    (
        (prop::bool::weighted(0.6), prop::bool::weighted(0.4), prop::bool::weighted(0.85), prop::bool::weighted(0.15)),
        prop::collection::vec(seed_create_strategy(), 0..=2),
        prop::option::weighted(0.45, (prop::sample::select(vec![9u8, 2, 3, 10, 4]), 0u8..3, q_strategy())),
        prop::collection::vec(stmt_strategy(), 1..=10),
    )
        .prop_map(|((pre_s1, pre_c1, pre_c1s1, pre_qs1), seeds, seed_view, rest)| {
            let mut stmts = vec![];
            if pre_s1 {
                stmts.push(Stmt::CreateSchema { schema: 0, if_not_exists: false });
            }
            if pre_qs1 {
                stmts.push(Stmt::CreateSchema { schema: 2, if_not_exists: false });
            }
            if pre_c1 {
                stmts.push(Stmt::CreateDatabase { db: 0, if_not_exists: false });
                if pre_c1s1 {
                    stmts.push(Stmt::CreateSchema { schema: 3, if_not_exists: false });
                }
            }
            let have_seed = !seeds.is_empty();
            stmts.extend(seeds);
            if let (true, Some((pick, nth, q))) = (have_seed, seed_view) {
                stmts.push(Stmt::CreateView { name: NameSel { existing: false, pick, spell: 0 }, or_replace: false, src: NameSel { existing: true, pick: nth, spell: 0 }, q });
            }
            stmts.extend(rest);
            stmts.truncate(MAX_STMTS);
            Case { stmts }
        })
        .boxed()
}

// ---------------------------------------------------------------------------------------------
// execution

enum Got {
    Rows { names: Vec<String>, rows: Vec<Vec<Value>> },
    Err { class: vf_df::ErrClass, msg: String },
    Timeout,
}

async fn exec(ctx: &SessionContext, sql: &str) -> Got {
    let fut = async {
        let df = ctx.sql(sql).await?;
        let names: Vec<String> = df.schema().fields().iter().map(|f| f.name().clone()).collect();
        let batches = df.collect().await?;
        Ok::<_, datafusion::error::DataFusionError>((names, vf_df::batches_to_rows(&batches)))
    };
    match tokio::time::timeout(std::time::Duration::from_secs(20), fut).await {
        Err(_) => Got::Timeout,
        Ok(Ok((names, rows))) => Got::Rows { names, rows },
        Ok(Err(e)) => Got::Err { class: vf_df::classify_error(&e), msg: truncate(&e.strip_backtrace(), 400) },
    }
}

fn not_info_schema(row: &[Value]) -> bool {
    !matches!(row.get(1), Some(Value::Str(s)) if s == "information_schema")
}

/// None = as expected
fn compare(exp: &Exp, got: &Got) -> Option<String> {
    match (exp, got) {
        (_, Got::Timeout) => None,
        (Exp::Stop, _) => None,
        (Exp::Ok, Got::Rows { .. }) => None,
        (Exp::Ok, Got::Err { msg, .. }) => Some(format!("expected success, got error: {msg}")),
        (Exp::Fail, Got::Err { .. }) => None,
        (Exp::Fail, Got::Rows { rows, .. }) => Some(format!("expected failure, statement succeeded ({} rows)", rows.len())),
        (Exp::Count(n), Got::Rows { rows, .. }) => {
            if rows.len() == 1 && rows[0] == vec![Value::Int(*n)] {
                None
            } else {
                Some(format!("expected an insert count of {n}, got {rows:?}"))
            }
        }
        (Exp::Rows { names, rows }, Got::Rows { names: gn, rows: gr }) => {
            if let Some(n) = names {
                if n != gn {
                    return Some(format!("expected output columns {n:?}, got {gn:?}"));
                }
            }
            let mut gr: Vec<Vec<Value>> = if names.is_none() { gr.iter().filter(|r| not_info_schema(r)).cloned().collect() } else { gr.clone() };
            // information_schema.columns: only the ORDER given by ordinal_position is asserted (the tree counts from
            // 0, the SQL standard from 1): shift every table's ordinals so that they start at 0
            if names.is_none() && gr.first().map(|r| r.len() == 6).unwrap_or(false) {
                let mut min: BTreeMap<String, i64> = BTreeMap::new();
                for r in &gr {
                    if let Value::Int(o) = r[4] {
                        let e = min.entry(format!("{:?}", &r[..3])).or_insert(o);
                        *e = (*e).min(o);
                    }
                }
                for r in gr.iter_mut() {
                    if let Value::Int(o) = r[4] {
                        let m = min[&format!("{:?}", &r[..3])];
                        r[4] = Value::Int(o - m);
                    }
                }
            }
            multiset_diff(rows, &gr)
        }
        (Exp::RowsEither { a, b }, Got::Rows { rows, .. }) => {
            // SHOW COLUMNS: catalog, schema, table, column, data_type, is_nullable (the last one is not asserted)
            let rows: Vec<Vec<Value>> = rows.iter().map(|r| r.iter().take(5).cloned().collect()).collect();
            match multiset_diff(a, &rows) {
                None => None,
                Some(d) => {
                    if multiset_diff(b, &rows).is_none() {
                        None
                    } else {
                        Some(d)
                    }
                }
            }
        }
        (Exp::Views { defined, others }, Got::Rows { rows, .. }) => {
            let mut with_def = vec![];
            for r in rows.iter().filter(|r| not_info_schema(r)) {
                if matches!(r.get(3), Some(Value::Null) | None) {
                    let key = match (&r[0], &r[1], &r[2]) {
                        (Value::Str(a), Value::Str(b), Value::Str(c)) => (a.clone(), b.clone(), c.clone()),
                        _ => return Some(format!("malformed information_schema.views row {r:?}")),
                    };
                    if !others.contains(&key) {
                        return Some(format!("information_schema.views lists {key:?} (no definition), which is not an existing base table"));
                    }
                } else {
                    with_def.push(r.clone());
                }
            }
            multiset_diff(defined, &with_def)
        }
        (Exp::RowsOrFail(_), Got::Err { .. }) => None,
        (Exp::RowsOrFail(inner), g @ Got::Rows { .. }) => compare(inner, g),
        (_, Got::Err { msg, .. }) => Some(format!("expected a result, got error: {msg}")),
    }
}

impl Property for C49 {
    type Case = Case;
    fn id(&self) -> &'static str {
        "C49"
    }
    fn sub(&self) -> &'static str {
        "c49"
    }
    fn strategy(&self, tier: Tier) -> BoxedStrategy<Case> {
        case_strategy(tier)
    }
    fn budget(&self, tier: Tier) -> Budget {
        Budget::new(tier.pick(2_400, 160_000), tier.pick(8, 16)).min_nontrivial(tier.pick(100, 5_000)).case_timeout(120)
    }
    fn rule(&self) -> String {
        "history of <= 12 DDL/DML/read statements over a pool of colliding names (case, quoting, schema and catalog qualification) on one \
         SessionContext; oracle = model catalog; non-trivial = some object was successfully created/replaced/dropped through >= 2 different \
         spellings of its name (>= 2 mutations) and a later read was checked; distinct by case JSON"
            .into()
    }
    fn assumptions(&self) -> Vec<String> {
        vec![
            "Arrow type spelling of SQL types and the CREATE VIEW definition text (sqlparser round trip) are pinned on the unchanged tree".into(),
            "information_schema.views may list base tables with a NULL definition; SHOW COLUMNS may list all objects matching the written name parts".into(),
            "a view whose base name was re-bound with different columns has no specified result (history stops without verdict)".into(),
            "is_nullable is not asserted".into(),
        ]
    }
    fn known_signature(&self, case: &Case) -> Option<String> {
        if history_reads_rebound_view(case) { Some("stale-view-binding".into()) } else { None }
    }
    fn run(&self, case: &Case) -> CaseResult {
        let rt = match tokio::runtime::Builder::new_current_thread().enable_all().build() {
            Ok(rt) => rt,
            Err(e) => return CaseResult::inconclusive(format!("runtime: {e}")),
        };
        let cfg = SessionConfig::new().with_target_partitions(1).with_information_schema(true);
        let ctx = SessionContext::new_with_config(cfg);
        let mut model = Model::new();
        let mut labels: BTreeSet<String> = BTreeSet::new();
        let mut script: Vec<String> = vec![];
        // object key -> spellings used by successful mutations, number of mutations
        let mut spellings: BTreeMap<String, (BTreeSet<String>, usize)> = BTreeMap::new();
        let mut respelled = false;
        let mut nontrivial = false;
        let mut checked_reads = 0usize;
        let mut stopped = false;
        for st in case.stmts.iter().take(MAX_STMTS) {
            let step = model.step(st);
            script.push(format!("{};", step.sql));
            let got = rt.block_on(exec(&ctx, &step.sql));
            for l in &step.labels {
                labels.insert((*l).to_string());
            }
            if step.stale {
                labels.insert("reads-rebound-view".into());
            }
            match &got {
                Got::Timeout => return CaseResult::inconclusive("statement timeout").labels(labels),
                Got::Err { class, .. } => {
                    labels.insert(format!("err:{class:?}"));
                    if matches!(step.exp, Exp::Ok | Exp::Rows { .. } | Exp::Count(_)) && *class == vf_df::ErrClass::NotImplemented {
                        return CaseResult::discard(format!("not implemented: {}", step.sql.split_whitespace().take(3).collect::<Vec<_>>().join(" "))).labels(labels);
                    }
                }
                Got::Rows { .. } => {}
            }
            if matches!(step.exp, Exp::Stop) {
                labels.insert("stopped-ambiguous".into());
                stopped = true;
                break;
            }
            if let Some(diff) = compare(&step.exp, &got) {
                let got_text = match &got {
                    Got::Rows { names, rows } => format!("columns {names:?}, {} rows", rows.len()),
                    Got::Err { class, msg } => format!("error {class:?}: {msg}"),
                    Got::Timeout => "timeout".into(),
                };
                return CaseResult::violation(format!(
                    "statement {} of the history behaves differently from the model catalog{}:\n  {}\n  got: {}\n  expected: {}\nscript:\n{}",
                    script.len(),
                    if step.stale { " (reads through a view whose base name was dropped/re-created/replaced)" } else { "" },
                    diff,
                    got_text,
                    truncate(&format!("{:?}", step.exp), 600),
                    script.join("\n")
                ))
                .labels(labels)
                .nontrivial(true);
            }
            if let Some((key, text)) = step.mutated {
                if matches!(got, Got::Rows { .. }) {
                    let e = spellings.entry(key).or_default();
                    e.0.insert(text);
                    e.1 += 1;
                    if e.0.len() >= 2 && e.1 >= 2 {
                        respelled = true;
                    }
                }
            }
            if step.is_read && !matches!(step.exp, Exp::Fail) {
                checked_reads += 1;
                if respelled {
                    nontrivial = true;
                }
            }
        }
        drop(ctx);
        if respelled {
            labels.insert("respelled-mutation".into());
        }
        if checked_reads > 0 {
            labels.insert("has-checked-read".into());
        }
        let _ = stopped;
        CaseResult::pass().nontrivial(nontrivial).labels(labels)
    }
}
