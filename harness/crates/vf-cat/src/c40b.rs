//! C40 part (b) — cached file metadata / statistics / directory listings are only used while valid
//! (end-to-end through `CREATE EXTERNAL TABLE` + SQL queries).
//!
//! Domain: one temp directory holding 1–3 Parquet (uncompressed, no dictionary, 3-row row groups, statistics
//! on) or CSV (header) files with columns `a BIGINT, b VARCHAR`; a `SessionContext` whose `RuntimeEnv` has all
//! three caches enabled through `CacheManagerConfig`: the list-files cache is a harness-built
//! `DefaultCache<TableScopedPath, CachedFileList>` with an INJECTED clock (`TimeProvider`) and TTL 10.5 s or
//! infinite; the file-metadata cache (Parquet footers) and the file-statistics cache are the manager's own
//! with limits {0 / tiny / default}. The table is created with `CREATE EXTERNAL TABLE <t|public.t|
//! datafusion.public.t|T> [ (a BIGINT, b VARCHAR) ] STORED AS … LOCATION '<dir>/'`. History ≤ 12 ops:
//! add a file (fresh name or a previously deleted name), rewrite a file in place (different row count =
//! different size with the OLD mtime restored / same row count = same size with mtime moved forward by 1–5 s /
//! both), delete a file (never the last one), query (`SELECT a, b`; `count(*), min(a), max(a)` — answerable from
//! statistics; `SELECT a … WHERE a >= k` — row-group pruning from cached footers; `count(*)`), advance the
//! injected clock (3 / 4 / 7 / 11 / 25 s — sums never equal the TTL), `DROP TABLE <spelling>` + re-`CREATE`.
//! All file mtimes are set explicitly (`File::set_modified`, whole seconds from a fixed epoch) so nothing
//! depends on the wall clock.
//!
//! Oracle (harness's own view of the directory; every file version has a unique id):
//! the model mirrors the list-files cache exactly (filled at a planning event when empty/expired, stamped
//! `now + ttl`, hits do not refresh it, emptied by DROP TABLE).
//! * Planning event with no valid cached listing (first CREATE, after DROP + CREATE, TTL elapsed): the query
//!   must return exactly the rows of the CURRENT files — in particular a file rewritten since it was cached
//!   (size and/or mtime changed) must be re-read although footer / statistics entries for its path exist.
//! * Inside a still-valid TTL: accepted are the rows of the current files, or the rows of the cached listing
//!   when every file of that listing is still the same version; if the cached listing contains a deleted or
//!   rewritten file (stale size ⇒ truncated / corrupt read) anything — including an error — is accepted.
//! Guards: a new version of a path never repeats the (size, mtime) pair of ANY older version of that path with
//! different content (two size-only rewrites 1 row → 2 rows → 1 row with restored mtime would — undetectable by
//! the stated rule; the mtime is then moved past everything the path ever had); the directory is never empty at a planning event; `collect_statistics = false`
//! is only combined with an inferred schema (so CREATE always lists and the cache model stays exact).
//!
//! Non-trivial: a file that an earlier planning event had seen is rewritten, and a later query is checked
//! strictly (must-be-fresh).
//!
//! Known finding: `DROP TABLE` compares the unresolved `TableReference` with the one CREATE EXTERNAL TABLE was
//! written with, so dropping under another spelling (`t` vs `datafusion.public.t`) leaves the listing / statistics
//! entries behind; a later CREATE under the old spelling reuses the dropped table's listing. Histories that can hit
//! this carry `known_signature = "drop-spelling-leaks-listing"` (regressions/C40/c40b/, known_findings.json).
//!
//! Deviations from DESIGN.md: lives in vf-cat (not vf-core); own expected-row computation instead of `refsql`
//! (the queries are fixed shapes).
//!
//! Sensitivity probes (tools/mutrun, `./check C40 quick`):
//!   1. core/src/execution/context/mod.rs `invalidate_caches`: `lfc.drop_table_entries(table_ref)` removed (DROP TABLE
//!      keeps the cached listing) -> VIOLATION after 203 cases: rewrite f0, `DROP TABLE t`, re-`CREATE EXTERNAL TABLE t`
//!      fails with "Invalid Parquet file. Corrupt footer" (stale size from the dropped table's listing).
//!   2. catalog-listing/src/table.rs `do_collect_statistics_and_ordering`: a cached statistics entry is also accepted
//!      when only the mtime matches (size ignored) -> VIOLATION after 36 cases: size-only rewrite (mtime restored),
//!      clock +11 s, `SELECT a, b FROM t` returns the stale file's rows "expected (11, r11) got (10, r10)".
//!   (Probes inside datafusion-execution — TTL never expiring, `is_valid_for` ignoring mtime — were prepared but not
//!   run: every mutrun rebuild of that crate's dependants took > 1 h on the shared machine; c40a covers them at unit
//!   level.)
//!   Repair /verif/fixes/C40-drop-table-resolved-cache-scope.diff (known finding `drop-spelling-leaks-listing`): with
//!   it the regression case passes and a quick run WITHOUT the known-finding exclusion passes (480 cases, 89 non-trivial).
use datafusion::arrow::array::{Int64Array, StringArray};
use datafusion::arrow::datatypes::{DataType, Field, Schema};
use datafusion::arrow::record_batch::RecordBatch;
use datafusion::common::instant::Instant;
use datafusion::execution::cache::TableScopedPath;
use datafusion::execution::cache::cache_manager::{CacheManagerConfig, CachedFileList};
use datafusion::execution::cache::default_cache::{DefaultCache, TimeProvider};
use datafusion::execution::runtime_env::RuntimeEnvBuilder;
use datafusion::parquet::arrow::ArrowWriter;
use datafusion::parquet::basic::Compression;
use datafusion::parquet::file::properties::{EnabledStatistics, WriterProperties};
use datafusion::prelude::{SessionConfig, SessionContext};
use proptest::prelude::*;
use serde::{Deserialize, Serialize};
use std::collections::{BTreeMap, BTreeSet};
use std::sync::Arc;
use std::sync::atomic::{AtomicU64, Ordering};
use std::time::{Duration, SystemTime};
use vf_df::refsql::{Value, multiset_diff};
use vf_kit::engine::*;

pub struct C40b;

const TTL_MS: u64 = 10_500;
const ADVANCES_MS: &[u64] = &[3_000, 4_000, 7_000, 11_000, 25_000];
const SPELLINGS: &[&str] = &["t", "public.t", "datafusion.public.t", "T"];
const EPOCH_S: u64 = 1_700_000_000;

#[derive(Clone, Copy, Debug, Serialize, Deserialize, PartialEq, Eq)]
pub enum Fmt {
    Parquet,
    Csv,
}

/// content of one file version: `rows` rows, `a = seed*10 + i`, `b = "r<a>"` (all values two digits wide)
#[derive(Clone, Copy, Debug, Serialize, Deserialize, PartialEq, Eq)]
pub struct Content {
    pub rows: u8,
    pub seed: u8,
}

#[derive(Clone, Debug, Serialize, Deserialize)]
pub enum Op {
    Add { content: Content, reuse_deleted: bool },
    /// kind: 0 = size only (old mtime restored), 1 = mtime only (same row count), 2 = both
    Rewrite { file: u8, kind: u8, seed: u8, rows: u8, mtime_step_s: u8 },
    Delete { file: u8 },
    /// q: 0 `SELECT a, b`, 1 `count(*), min(a), max(a)`, 2 `SELECT a WHERE a >= k`, 3 `count(*)`
    Query { q: u8, k: u8, spelling: u8 },
    Advance { step: u8 },
    Recreate { drop_spelling: u8, create_spelling: u8 },
}

#[derive(Clone, Debug, Serialize, Deserialize)]
pub struct Case {
    pub format: Fmt,
    pub explicit_schema: bool,
    pub collect_statistics: bool,
    pub infinite_ttl: bool,
    /// 0 = 0 bytes, 1 = tiny, 2 = default
    pub metadata_limit: u8,
    pub stats_limit: u8,
    pub create_spelling: u8,
    pub target_partitions: u8,
    pub initial: Vec<Content>,
    pub ops: Vec<Op>,
}

struct Clock {
    base: Instant,
    offset_ms: AtomicU64,
}

impl TimeProvider for Clock {
    fn now(&self) -> Instant {
        self.base + Duration::from_millis(self.offset_ms.load(Ordering::SeqCst))
    }
}

fn norm(c: Content) -> Content {
    Content { rows: c.rows.clamp(1, 6), seed: c.seed.clamp(1, 9) }
}

fn rows_of(c: Content) -> Vec<(i64, String)> {
    let c = norm(c);
    (0..c.rows as i64).map(|i| c.seed as i64 * 10 + i).map(|a| (a, format!("r{a}"))).collect()
}

fn write_file(path: &std::path::Path, fmt: Fmt, c: Content, mtime_s: u64) -> Result<u64, String> {
    let rows = rows_of(c);
    match fmt {
        Fmt::Csv => {
            let mut s = String::from("a,b\n");
            for (a, b) in &rows {
                s.push_str(&format!("{a},{b}\n"));
            }
            std::fs::write(path, s).map_err(|e| e.to_string())?;
        }
        Fmt::Parquet => {
            let schema = Arc::new(Schema::new(vec![Field::new("a", DataType::Int64, true), Field::new("b", DataType::Utf8, true)]));
            let a = Int64Array::from(rows.iter().map(|r| r.0).collect::<Vec<_>>());
            let b = StringArray::from(rows.iter().map(|r| r.1.clone()).collect::<Vec<_>>());
            let batch = RecordBatch::try_new(schema.clone(), vec![Arc::new(a), Arc::new(b)]).map_err(|e| e.to_string())?;
            let props = WriterProperties::builder()
                .set_compression(Compression::UNCOMPRESSED)
                .set_dictionary_enabled(false)
                .set_statistics_enabled(EnabledStatistics::Page)
                .set_max_row_group_row_count(Some(3))
                .set_created_by("vf-cat".to_string())
                .build();
            let file = std::fs::File::create(path).map_err(|e| e.to_string())?;
            let mut w = ArrowWriter::try_new(file, schema, Some(props)).map_err(|e| e.to_string())?;
            w.write(&batch).map_err(|e| e.to_string())?;
            w.close().map_err(|e| e.to_string())?;
        }
    }
    let f = std::fs::File::options().write(true).open(path).map_err(|e| e.to_string())?;
    f.set_modified(SystemTime::UNIX_EPOCH + Duration::from_secs(mtime_s)).map_err(|e| e.to_string())?;
    drop(f);
    std::fs::metadata(path).map(|m| m.len()).map_err(|e| e.to_string())
}

#[derive(Clone, Debug)]
struct FileState {
    version: u64,
    content: Content,
    size: u64,
    mtime_s: u64,
    /// a planning event has listed this version
    seen: bool,
}

#[derive(Clone, Debug)]
struct Listing {
    files: Vec<(String, u64)>,
    expires_ms: Option<u64>,
}

enum Got {
    Rows(Vec<Vec<Value>>),
    Err(String),
    Timeout,
}

async fn exec(ctx: &SessionContext, sql: &str) -> Got {
    let fut = async {
        let df = ctx.sql(sql).await?;
        let batches = df.collect().await?;
        Ok::<_, datafusion::error::DataFusionError>(vf_df::batches_to_rows(&batches))
    };
    match tokio::time::timeout(Duration::from_secs(30), fut).await {
        Err(_) => Got::Timeout,
        Ok(Ok(rows)) => Got::Rows(rows),
        Ok(Err(e)) => Got::Err(truncate(&e.strip_backtrace(), 400)),
    }
}

fn expected_rows(q: u8, k: i64, contents: &[Content]) -> Vec<Vec<Value>> {
    let all: Vec<(i64, String)> = contents.iter().flat_map(|c| rows_of(*c)).collect();
    match q {
        0 => all.into_iter().map(|(a, b)| vec![Value::Int(a), Value::Str(b)]).collect(),
        1 => {
            let n = all.len() as i64;
            let mn = all.iter().map(|r| r.0).min();
            let mx = all.iter().map(|r| r.0).max();
            vec![vec![Value::Int(n), mn.map(Value::Int).unwrap_or(Value::Null), mx.map(Value::Int).unwrap_or(Value::Null)]]
        }
        2 => all.into_iter().filter(|r| r.0 >= k).map(|(a, _)| vec![Value::Int(a)]).collect(),
        _ => vec![vec![Value::Int(all.len() as i64)]],
    }
}

fn query_sql(q: u8, k: i64, name: &str) -> String {
    match q {
        0 => format!("SELECT a, b FROM {name}"),
        1 => format!("SELECT count(*), min(a), max(a) FROM {name}"),
        2 => format!("SELECT a FROM {name} WHERE a >= {k}"),
        _ => format!("SELECT count(*) FROM {name}"),
    }
}

fn limit_of(choice: u8, default: usize) -> usize {
    match choice {
        0 => 0,
        1 => 2_000,
        _ => default,
    }
}

fn content_strategy() -> BoxedStrategy<Content> {
    (1u8..=6, 1u8..=9).prop_map(|(rows, seed)| Content { rows, seed }).boxed()
}

fn op_strategy() -> BoxedStrategy<Op> {
    prop_oneof![
        3 => (content_strategy(), prop::bool::weighted(0.3)).prop_map(|(content, reuse_deleted)| Op::Add { content, reuse_deleted }),
        6 => (0u8..4, 0u8..3, 1u8..=9, 1u8..=6, 1u8..=5).prop_map(|(file, kind, seed, rows, mtime_step_s)| Op::Rewrite { file, kind, seed, rows, mtime_step_s }),
        2 => (0u8..4).prop_map(|file| Op::Delete { file }),
        11 => (0u8..4, 10u8..100, 0u8..(SPELLINGS.len() as u8)).prop_map(|(q, k, spelling)| Op::Query { q, k, spelling }),
        5 => prop_oneof![2 => 0u8..3, 3 => 3u8..(ADVANCES_MS.len() as u8)].prop_map(|step| Op::Advance { step }),
        2 => (0u8..(SPELLINGS.len() as u8), 0u8..(SPELLINGS.len() as u8)).prop_map(|(drop_spelling, create_spelling)| Op::Recreate { drop_spelling, create_spelling }),
    ]
    .boxed()
}

struct Bench {
    dir: tempfile::TempDir,
    fmt: Fmt,
    files: BTreeMap<String, FileState>,
    deleted_names: Vec<String>,
    next_file: u32,
    next_version: u64,
    next_mtime: u64,
    clock_ms: u64,
    cached: Option<Listing>,
    /// every (size, mtime, content) a path ever had: a new version must not repeat the (size, mtime) of an older
    /// version with different content (undetectable by the stated rule)
    history: BTreeMap<String, Vec<(u64, u64, Content)>>,
}

fn set_mtime(path: &std::path::Path, mtime_s: u64) -> Result<(), String> {
    let f = std::fs::File::options().write(true).open(path).map_err(|e| e.to_string())?;
    f.set_modified(SystemTime::UNIX_EPOCH + Duration::from_secs(mtime_s)).map_err(|e| e.to_string())
}

impl Bench {
    fn ext(&self) -> &'static str {
        match self.fmt {
            Fmt::Parquet => "parquet",
            Fmt::Csv => "csv",
        }
    }
    fn add(&mut self, name: Option<String>, content: Content) -> Result<(), String> {
        let name = name.unwrap_or_else(|| {
            let n = format!("f{}.{}", self.next_file, self.ext());
            self.next_file += 1;
            n
        });
        let mtime = EPOCH_S + self.next_mtime;
        self.next_mtime += 7;
        let size = write_file(&self.dir.path().join(&name), self.fmt, content, mtime)?;
        let mtime = self.disambiguate(&name, size, mtime, norm(content))?;
        self.next_version += 1;
        self.files.insert(name, FileState { version: self.next_version, content: norm(content), size, mtime_s: mtime, seen: false });
        Ok(())
    }
    /// make sure (size, mtime) of the version just written differs from every older version of the path with other
    /// content: if not, move the mtime past everything seen (construction, not rejection); records the version
    fn disambiguate(&mut self, name: &str, size: u64, mtime: u64, content: Content) -> Result<u64, String> {
        let h = self.history.entry(name.to_string()).or_default();
        let mut mtime = mtime;
        if h.iter().any(|(s, m, c)| *s == size && *m == mtime && *c != content) {
            mtime = h.iter().map(|x| x.1).max().unwrap_or(mtime).max(mtime) + 1;
            set_mtime(&self.dir.path().join(name), mtime)?;
        }
        h.push((size, mtime, content));
        Ok(mtime)
    }
    fn current_listing(&self) -> Vec<(String, u64)> {
        self.files.iter().map(|(n, f)| (n.clone(), f.version)).collect()
    }
    fn current_contents(&self) -> Vec<Content> {
        self.files.values().map(|f| f.content).collect()
    }
}

enum Expect {
    /// must equal the rows of the current files (why: "no-cache", "ttl-expired", "unchanged")
    Fresh(&'static str),
    /// current rows or the rows of these (unchanged) cached files
    FreshOrStale(Vec<Content>),
    Anything,
}

impl Property for C40b {
    type Case = Case;
    fn id(&self) -> &'static str {
        "C40"
    }
    fn sub(&self) -> &'static str {
        "c40b"
    }
    fn strategy(&self, tier: Tier) -> BoxedStrategy<Case> {
        let max_ops = tier.pick(10usize, 12usize);
        (
            (prop_oneof![3 => Just(Fmt::Parquet), 1 => Just(Fmt::Csv)], any::<bool>(), prop::bool::weighted(0.8), prop::bool::weighted(0.12)),
            (0u8..3, 0u8..3, 0u8..(SPELLINGS.len() as u8), 1u8..4),
            prop::collection::vec(content_strategy(), 1..4),
            prop::collection::vec(op_strategy(), 2..=max_ops),
        )
            .prop_map(|((format, explicit_schema, collect_statistics, infinite_ttl), (metadata_limit, stats_limit, create_spelling, target_partitions), initial, ops)| Case {
                format,
                explicit_schema,
                collect_statistics,
                infinite_ttl,
                metadata_limit,
                stats_limit,
                create_spelling,
                target_partitions,
                initial,
                ops,
            })
            .boxed()
    }
    fn budget(&self, tier: Tier) -> Budget {
        Budget::new(tier.pick(480, 32_000), tier.pick(8, 16)).min_nontrivial(tier.pick(40, 2_000)).case_timeout(180)
    }
    fn rule(&self) -> String {
        "listing table over a temp dir (Parquet/CSV), all caches on, list-files TTL with an injected clock; history of add / in-place rewrite \
         (size-only with restored mtime, mtime-only with equal size, both) / delete / query / advance clock / DROP+CREATE; non-trivial = a file \
         seen by an earlier planning event was rewritten and a later query was checked strictly (no valid cached listing); distinct by case JSON"
            .into()
    }
    fn assumptions(&self) -> Vec<String> {
        vec![
            "inside a valid TTL a cached listing that names a deleted or rewritten file may produce any result or error".into(),
            "LocalFileSystem reports the mtime set with File::set_modified and the real size".into(),
            "the list-files cache is filled by CREATE EXTERNAL TABLE (schema inference or statistics pre-warm) and by every planning miss".into(),
        ]
    }
    fn known_signature(&self, case: &Case) -> Option<String> {
        // DROP TABLE under a spelling whose TableReference differs from the one used by CREATE leaves the list-files
        // entry of the CREATE spelling behind; it is hit again by a later CREATE under that spelling.
        let class = |s: u8| match SPELLINGS[(s as usize).min(SPELLINGS.len() - 1)].split('.').count() {
            1 => 0u8,
            2 => 1,
            _ => 2,
        };
        let mut current = class(case.create_spelling);
        let mut leaked: BTreeSet<u8> = BTreeSet::new();
        for op in case.ops.iter().take(12) {
            if let Op::Recreate { drop_spelling, create_spelling } = op {
                if class(*drop_spelling) != current {
                    leaked.insert(current);
                }
                current = class(*create_spelling);
                if leaked.contains(&current) {
                    return Some("drop-spelling-leaks-listing".into());
                }
            }
        }
        None
    }
    fn run(&self, case: &Case) -> CaseResult {
        let rt = match tokio::runtime::Builder::new_current_thread().enable_all().build() {
            Ok(rt) => rt,
            Err(e) => return CaseResult::inconclusive(format!("runtime: {e}")),
        };
        let dir = match tempfile::tempdir() {
            Ok(d) => d,
            Err(e) => return CaseResult::inconclusive(format!("tempdir: {e}")),
        };
        let mut b = Bench { dir, fmt: case.format, files: BTreeMap::new(), deleted_names: vec![], next_file: 0, next_version: 0, next_mtime: 0, clock_ms: 0, cached: None, history: BTreeMap::new() };
        let mut labels: BTreeSet<String> = BTreeSet::new();
        labels.insert(format!("fmt:{:?}", case.format));
        for c in case.initial.iter().take(3) {
            if let Err(e) = b.add(None, *c) {
                return CaseResult::inconclusive(format!("write: {e}"));
            }
        }
        if b.files.is_empty() {
            return CaseResult::discard("no initial file");
        }
        let explicit_schema = case.explicit_schema;
        let collect_statistics = case.collect_statistics || explicit_schema;
        let ttl = if case.infinite_ttl { None } else { Some(Duration::from_millis(TTL_MS)) };
        labels.insert(if case.infinite_ttl { "ttl:infinite".into() } else { "ttl:10.5s".into() });
        labels.insert(format!("collect_statistics:{collect_statistics}"));
        labels.insert(format!("schema:{}", if explicit_schema { "explicit" } else { "inferred" }));

        let clock = Arc::new(Clock { base: Instant::now(), offset_ms: AtomicU64::new(0) });
        let list_cache = Arc::new(DefaultCache::<TableScopedPath, CachedFileList>::new_with_ttl(1 << 20, ttl).with_name("vf-list-files").with_time_provider(clock.clone()));
        let cm = CacheManagerConfig::default()
            .with_list_files_cache(Some(list_cache.clone()))
            .with_list_files_cache_limit(1 << 20)
            .with_list_files_cache_ttl(ttl)
            .with_metadata_cache_limit(limit_of(case.metadata_limit, 50 << 20))
            .with_file_statistics_cache_limit(limit_of(case.stats_limit, 20 << 20));
        let env = match RuntimeEnvBuilder::new().with_cache_manager(cm).build_arc() {
            Ok(e) => e,
            Err(e) => return CaseResult::inconclusive(format!("runtime env: {e}")),
        };
        let cfg = SessionConfig::new().with_target_partitions(case.target_partitions.clamp(1, 4) as usize).with_collect_statistics(collect_statistics);
        let ctx = SessionContext::new_with_config_rt(cfg, env.clone());

        let location = format!("{}/", b.dir.path().display());
        let stored = match case.format {
            Fmt::Parquet => "PARQUET",
            Fmt::Csv => "CSV",
        };
        let create_sql = |spelling: u8| {
            let name = SPELLINGS[(spelling as usize).min(SPELLINGS.len() - 1)];
            let cols = if explicit_schema { " (a BIGINT, b VARCHAR)" } else { "" };
            let opts = if case.format == Fmt::Csv { " OPTIONS ('format.has_header' 'true')" } else { "" };
            format!("CREATE EXTERNAL TABLE {name}{cols} STORED AS {stored} LOCATION '{location}'{opts}")
        };
        let mut script: Vec<String> = vec![];
        let mut nontrivial = false;
        let mut rewritten_seen = false; // a seen file was rewritten and no strict query has checked it yet
        let mut strict_queries = 0usize;

        // planning event bookkeeping: returns what the statement may observe
        fn planning_event(b: &mut Bench, ttl: Option<Duration>) -> Expect {
            let now = b.clock_ms;
            let valid = b.cached.as_ref().map(|c| c.expires_ms.map_or(true, |e| now <= e)).unwrap_or(false);
            if valid {
                let c = b.cached.as_ref().unwrap();
                let cur = b.current_listing();
                if c.files == cur {
                    return Expect::Fresh("unchanged");
                }
                let mut contents = vec![];
                for (name, ver) in &c.files {
                    match b.files.get(name) {
                        Some(f) if f.version == *ver => contents.push(f.content),
                        _ => return Expect::Anything,
                    }
                }
                Expect::FreshOrStale(contents)
            } else {
                let why = if b.cached.is_some() { "ttl-expired" } else { "no-cache" };
                b.cached = Some(Listing { files: b.current_listing(), expires_ms: ttl.map(|t| now + t.as_millis() as u64) });
                for f in b.files.values_mut() {
                    f.seen = true;
                }
                Expect::Fresh(why)
            }
        }

        macro_rules! violation {
            ($($arg:tt)*) => {
                return CaseResult::violation(format!("{}\nformat {:?}, ttl {:?}, clock {} ms\nhistory:\n{}", format!($($arg)*), case.format, ttl, b.clock_ms, script.join("\n"))).labels(labels).nontrivial(true)
            };
        }

        // initial CREATE
        let sql = create_sql(case.create_spelling);
        script.push(format!("{sql};"));
        let _ = planning_event(&mut b, ttl);
        match rt.block_on(exec(&ctx, &sql)) {
            Got::Timeout => return CaseResult::inconclusive("timeout").labels(labels),
            Got::Err(e) => violation!("CREATE EXTERNAL TABLE over a non-empty directory failed: {e}"),
            Got::Rows(_) => {}
        }

        for op in case.ops.iter().take(12) {
            match op {
                Op::Add { content, reuse_deleted } => {
                    let name = if *reuse_deleted { b.deleted_names.pop() } else { None };
                    if name.is_some() {
                        labels.insert("add-reused-name".into());
                    }
                    script.push(format!("-- add file {:?} {:?}", name.clone().unwrap_or_else(|| format!("f{}", b.next_file)), norm(*content)));
                    if let Err(e) = b.add(name, *content) {
                        return CaseResult::inconclusive(format!("write: {e}")).labels(labels);
                    }
                    labels.insert("add".into());
                }
                Op::Delete { file } => {
                    if b.files.len() <= 1 {
                        continue;
                    }
                    let name = b.files.keys().nth((*file as usize).min(b.files.len() - 1)).cloned().unwrap();
                    if let Err(e) = std::fs::remove_file(b.dir.path().join(&name)) {
                        return CaseResult::inconclusive(format!("remove: {e}")).labels(labels);
                    }
                    b.files.remove(&name);
                    script.push(format!("-- delete file {name}"));
                    b.deleted_names.push(name);
                    labels.insert("delete".into());
                }
                Op::Rewrite { file, kind, seed, rows, mtime_step_s } => {
                    let name = b.files.keys().nth((*file as usize).min(b.files.len() - 1)).cloned().unwrap();
                    let old = b.files.get(&name).cloned().unwrap();
                    let mut new = norm(Content { rows: *rows, seed: *seed });
                    let (same_rows, keep_mtime) = match kind {
                        0 => (false, true),
                        1 => (true, false),
                        _ => (false, false),
                    };
                    if same_rows {
                        new.rows = old.content.rows;
                        if new.seed == old.content.seed {
                            new.seed = if new.seed == 9 { 1 } else { new.seed + 1 };
                        }
                    } else if new.rows == old.content.rows {
                        new.rows = if new.rows == 6 { 1 } else { new.rows + 1 };
                    }
                    let mtime = if keep_mtime { old.mtime_s } else { old.mtime_s + (*mtime_step_s).clamp(1, 5) as u64 };
                    let size = match write_file(&b.dir.path().join(&name), b.fmt, new, mtime) {
                        Ok(s) => s,
                        Err(e) => return CaseResult::inconclusive(format!("write: {e}")).labels(labels),
                    };
                    let mtime = match b.disambiguate(&name, size, mtime, new) {
                        Ok(m) => m,
                        Err(e) => return CaseResult::inconclusive(format!("set mtime: {e}")).labels(labels),
                    };
                    if size == old.size && mtime == old.mtime_s {
                        return CaseResult::discard("rewrite with unchanged size and mtime (undetectable)").labels(labels);
                    }
                    labels.insert(
                        match (size == old.size, mtime == old.mtime_s) {
                            (false, true) => "rewrite:size-only",
                            (true, false) => "rewrite:mtime-only",
                            _ => "rewrite:size+mtime",
                        }
                        .into(),
                    );
                    script.push(format!("-- rewrite {name}: {:?} size {} mtime +{} -> {:?} size {size} mtime +{}", old.content, old.size, old.mtime_s - EPOCH_S, new, mtime - EPOCH_S));
                    b.next_version += 1;
                    if old.seen {
                        rewritten_seen = true;
                        labels.insert("rewrite-of-cached-file".into());
                    }
                    b.files.insert(name, FileState { version: b.next_version, content: new, size, mtime_s: mtime, seen: false });
                }
                Op::Advance { step } => {
                    let ms = ADVANCES_MS[(*step as usize).min(ADVANCES_MS.len() - 1)];
                    b.clock_ms += ms;
                    clock.offset_ms.store(b.clock_ms, Ordering::SeqCst);
                    script.push(format!("-- advance clock by {ms} ms (now {} ms)", b.clock_ms));
                    labels.insert("advance".into());
                }
                Op::Recreate { drop_spelling, create_spelling } => {
                    let dn = SPELLINGS[(*drop_spelling as usize).min(SPELLINGS.len() - 1)];
                    let sql = format!("DROP TABLE {dn}");
                    script.push(format!("{sql};"));
                    match rt.block_on(exec(&ctx, &sql)) {
                        Got::Timeout => return CaseResult::inconclusive("timeout").labels(labels),
                        Got::Err(e) => violation!("DROP TABLE {dn} failed: {e}"),
                        Got::Rows(_) => {}
                    }
                    b.cached = None;
                    let sql = create_sql(*create_spelling);
                    script.push(format!("{sql};"));
                    let _ = planning_event(&mut b, ttl);
                    match rt.block_on(exec(&ctx, &sql)) {
                        Got::Timeout => return CaseResult::inconclusive("timeout").labels(labels),
                        Got::Err(e) => violation!("re-CREATE EXTERNAL TABLE failed: {e}"),
                        Got::Rows(_) => {}
                    }
                    labels.insert("drop+create".into());
                    if drop_spelling != create_spelling {
                        labels.insert("drop-under-other-spelling".into());
                    }
                }
                Op::Query { q, k, spelling } => {
                    let name = SPELLINGS[(*spelling as usize).min(SPELLINGS.len() - 1)];
                    let q = (*q).min(3);
                    let k = *k as i64;
                    let sql = query_sql(q, k, name);
                    script.push(format!("{sql};"));
                    let expect = planning_event(&mut b, ttl);
                    let got = rt.block_on(exec(&ctx, &sql));
                    let fresh = expected_rows(q, k, &b.current_contents());
                    labels.insert(format!("query:{q}"));
                    match (&expect, &got) {
                        (_, Got::Timeout) => return CaseResult::inconclusive("timeout").labels(labels),
                        (Expect::Anything, _) => {
                            labels.insert("within-ttl:undetermined".into());
                            if matches!(got, Got::Err(_)) {
                                labels.insert("within-ttl:error-on-stale-listing".into());
                            }
                        }
                        (Expect::Fresh(_), Got::Err(e)) | (Expect::FreshOrStale(_), Got::Err(e)) => violation!("query failed although every file it may use is intact: {e}"),
                        (Expect::Fresh(why), Got::Rows(rows)) => {
                            strict_queries += 1;
                            labels.insert(format!("strict-query:{why}"));
                            if let Some(d) = multiset_diff(&fresh, rows) {
                                violation!("no valid cached listing exists (first use / TTL elapsed / table re-created) or nothing changed, yet the query does not return the rows of the current files:\n  {d}");
                            }
                            if rewritten_seen {
                                nontrivial = true;
                                labels.insert("strict-after-rewrite".into());
                                rewritten_seen = false;
                            }
                        }
                        (Expect::FreshOrStale(contents), Got::Rows(rows)) => {
                            let stale = expected_rows(q, k, contents);
                            if multiset_diff(&fresh, rows).is_none() {
                                labels.insert("within-ttl:fresh".into());
                            } else if multiset_diff(&stale, rows).is_none() {
                                labels.insert("within-ttl:stale".into());
                            } else {
                                violation!("inside the TTL the query returns neither the rows of the current files nor those of the cached listing:\n  vs current: {}\n  vs cached: {}", multiset_diff(&fresh, rows).unwrap_or_default(), multiset_diff(&stale, rows).unwrap_or_default());
                            }
                        }
                    }
                }
            }
        }
        // coverage evidence: which caches were populated
        let cmgr = &env.cache_manager;
        if cmgr.get_file_metadata_cache().len() > 0 {
            labels.insert("metadata-cache-populated".into());
        }
        if cmgr.get_file_statistic_cache().map(|c| c.len() > 0).unwrap_or(false) {
            labels.insert("statistics-cache-populated".into());
        }
        if cmgr.get_list_files_cache().map(|c| c.len() > 0).unwrap_or(false) {
            labels.insert("list-cache-populated".into());
        }
        drop(ctx);
        if strict_queries == 0 {
            labels.insert("no-strict-query".into());
        }
        CaseResult::pass().nontrivial(nontrivial).labels(labels)
    }
}
